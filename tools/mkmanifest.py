#!/usr/bin/env python3
"""Regenerate /verif/MANIFEST.json from the property modules that exist (keeps it valid at all times)."""
import importlib
import json
import os
import sys

ROOT = os.path.dirname(os.path.dirname(os.path.abspath(__file__)))
sys.path.insert(0, ROOT)

props = [json.loads(l) for l in open(os.path.join(ROOT, "properties.jsonl"))]
checks, na = [], []
for p in props:
    pid = p["id"]
    path = os.path.join(ROOT, "vmon", "props", pid.lower() + ".py")
    if not os.path.exists(path):
        na.append(dict(property_id=pid, reason="check not built yet in this round (runtime monitoring applies; see DESIGN.md section 6)"))
        continue
    mod = importlib.import_module(f"vmon.props.{pid.lower()}")
    level = getattr(mod, "LEVEL", "exploration")
    checks.append(dict(
        property_id=pid,
        quick_cmd=f"/venv/bin/python -m vmon {pid} --tier quick",
        thorough_cmd=f"/venv/bin/python -m vmon {pid} --tier thorough",
        evidence_file=f"/verif/evidence/{pid}.json",
        replay_cmd_template=f"/venv/bin/python -m vmon {pid} --replay {{path}}",
        engine="vmon",
        level_claimed=dict(
            category=level,
            text=getattr(mod, "LEVEL_TEXT", "Runtime monitoring: the real code is driven with generated, exhaustive-where-finite and "
                         "hostile workloads while an independent reference-model oracle judges every observed execution; the verdict is "
                         "'held on the executions observed' (counts in the evidence file), not a proof."),
            design_ref=f"DESIGN.md section 6, {pid}",
        ),
        level_note=getattr(mod, "LEVEL_NOTE", "trusted base: CPython, numpy, the harness reference models in vmon/ref.py and the "
                           "oracle of this property; only executions produced by the workload are judged"),
        technique=getattr(mod, "TECHNIQUE", "runtime monitoring: sys.monitoring probes + reference-model oracle over generated workloads"),
    ))
man = dict(
    version=1,
    setup_cmd="/venv/bin/python -m vmon.setup_check",
    hooks=dict(
        guard="MAZE_DATASET_VERIF",
        enable="no source hooks: monitors attach from outside with sys.monitoring on the code objects of /repo's functions "
               "(PYTHONPATH=/repo, imported in place); the guard name is reserved and unused",
        baseline_off_cmd="cd /repo && /venv/bin/python -m pytest -ra -q -p no:cacheprovider --timeout=900 --continue-on-collection-errors",
        source_commits=[],
        add_only=True,
    ),
    engines=[dict(name="vmon", path="/verif/vmon", serves_properties=[c["property_id"] for c in checks],
                  kind_free_text="python runtime-monitoring harness: sharded workloads, sys.monitoring probes, reference-model oracles, "
                                 "fault injection, offline checkers over recorded event logs")],
    checks=checks,
    notes="exit 0 held / 1 VIOLATION / 2 INCONCLUSIVE; known findings in /verif/known_findings.json keyed by mechanism; "
          "VERIF_SEED honoured; see DESIGN.md",
    not_applicable=na,
)
with open(os.path.join(ROOT, "MANIFEST.json"), "w") as f:
    json.dump(man, f, indent=1)
try:
    import jsonschema
    jsonschema.validate(man, json.load(open("/root/.vp/MANIFEST.schema.json")))
    print("MANIFEST valid;", len(checks), "checks;", len(na), "not yet built")
except ImportError:
    print("jsonschema missing; not validated")
