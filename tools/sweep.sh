#!/bin/bash
# usage: tools/sweep.sh <tier> "<seeds>" [props...]   — runs checks without touching committed evidence; prints one line per run
tier=$1; seeds=$2; shift 2
props=${@:-C01 C02 C03 C04 C05 C06 C07 C08 C09 C10 C11 C12 C13 C14 C15 C16 C17 C18 C19 C20}
for s in $seeds; do for p in $props; do
  t0=$(date +%s)
  out=$(VERIF_SEED=$s /venv/bin/python -m vmon $p --tier $tier --no-evidence 2>&1); rc=$?
  echo "SWEEP tier=$tier seed=$s $p rc=$rc wall=$(( $(date +%s) - t0 ))s $(echo "$out" | grep -E '^(VIOLATION|INCONCLUSIVE|KNOWN-FINDING)' | cut -c1-220 | tr '\n' '|')"
  if [ $rc -ne 0 ]; then echo "$out" | grep -E -A3 '^(VIOLATION|INCONCLUSIVE)' | head -30; fi
done; done
