#!/usr/bin/env python3
"""Regression over the whole corpus of independently written changes:
  seeded/<id>  (property-breaking)   -> the owning quick check must exit 1
  benign/<id>  (property-preserving) -> the owning quick check must exit 0
Each change is applied to a scratch worktree of /repo HEAD (removed afterwards); nothing under /verif is rewritten.

    tools/regress.py [--jobs 4] [--only C03,C11] [--kind seeded|benign|all] [--seed 0]
"""
import argparse
import concurrent.futures as cf
import glob
import json
import os
import shutil
import subprocess
import sys
import tempfile
import time

ROOT = os.path.dirname(os.path.dirname(os.path.abspath(__file__)))
PY = "/venv/bin/python"


def one(kind, sid, prop, seed):
    tmp = tempfile.mkdtemp(prefix=f"regress-{sid}-", dir="/tmp")
    wt = os.path.join(tmp, "r")
    t0 = time.time()
    try:
        subprocess.run(["git", "-C", "/repo", "worktree", "add", "-q", "--detach", wt, "HEAD"], capture_output=True)
        ap = subprocess.run(["git", "-C", wt, "apply", os.path.join(ROOT, "benign" if kind == "benign" else "seeded", sid, "patch.diff")], capture_output=True, text=True)
        if ap.returncode != 0:
            return kind, sid, "PATCH-DOES-NOT-APPLY", [], 0
        env = dict(os.environ, VMON_REPO=wt, VERIF_SEED=str(seed))
        r = subprocess.run([PY, "-m", "vmon", prop, "--tier", "quick", "--no-evidence"], cwd=ROOT, env=env, capture_output=True, text=True, timeout=5400)
        mech = [ln.strip()[len("mechanism: "):].split(" (x")[0] for ln in r.stdout.splitlines() if ln.strip().startswith("mechanism:")]
        if r.returncode == 2:
            mech = [ln.strip()[:160] for ln in r.stdout.splitlines() if ln.startswith("INCONCLUSIVE")][:3]
        return kind, sid, {0: "held", 1: "VIOLATION", 2: "INCONCLUSIVE"}.get(r.returncode, f"rc={r.returncode}"), mech[:3], round(time.time() - t0)
    finally:
        subprocess.run(["git", "-C", "/repo", "worktree", "remove", "--force", wt], capture_output=True)
        shutil.rmtree(tmp, ignore_errors=True)


def main():
    ap = argparse.ArgumentParser()
    ap.add_argument("--jobs", type=int, default=4)
    ap.add_argument("--only", default="")
    ap.add_argument("--kind", default="all")
    ap.add_argument("--seed", type=int, default=0)
    ap.add_argument("--ids", default="", help="regular expression the change id must match, e.g. '-[a-h]$'")
    a = ap.parse_args()
    only = set(x for x in a.only.split(",") if x)
    todo = []
    for kind in ("seeded", "benign"):
        if a.kind not in ("all", kind):
            continue
        for f in sorted(glob.glob(os.path.join(ROOT, kind, "*", "meta.json"))):
            m = json.load(open(f))
            if only and m["property"] not in only:
                continue
            if a.ids and not __import__("re").search(a.ids, m["seed_id"]):
                continue
            todo.append((kind if not m.get("known_miss") else "known-miss", m["seed_id"], m["property"], a.seed))
    bad = 0
    with cf.ThreadPoolExecutor(max_workers=a.jobs) as ex:
        for kind, sid, verdict, mech, wall in ex.map(lambda t: one(*t), todo):
            want = "VIOLATION" if kind == "seeded" else "held"   # benign changes and recorded known misses stay silent
            ok = verdict == want
            bad += not ok
            print(f"REGRESS {kind:6s} {sid:6s} {verdict:12s} {'ok ' if ok else 'UNEXPECTED'} {wall:4d}s {mech}", flush=True)
    print(f"REGRESS SUMMARY: {len(todo)} changes, {bad} unexpected")
    return 1 if bad else 0


if __name__ == "__main__":
    sys.exit(main())
