#!/usr/bin/env python3
"""Mutation self-test: apply each deliberate break (DESIGN section 6, 'B' lists) to a scratch worktree of /repo
(outside /repo and /verif), run the owning property's quick check against it (VMON_REPO), report caught / missed.

    tools/selfmut.py [--only C02,C05] [--jobs 4]
"""
import argparse
import json
import os
import shutil
import subprocess
import sys
import tempfile
from concurrent.futures import ThreadPoolExecutor

ROOT = os.path.dirname(os.path.dirname(os.path.abspath(__file__)))
G = "maze_dataset/generation/generators.py"
L = "maze_dataset/maze/lattice_maze.py"
MD = "maze_dataset/dataset/maze_dataset.py"
DS = "maze_dataset/dataset/dataset.py"
CD = "maze_dataset/dataset/collected_dataset.py"
RZ = "maze_dataset/dataset/rasterized.py"
TU = "maze_dataset/token_utils.py"
UT = "maze_dataset/utils.py"
CO = "maze_dataset/constants.py"
MT = "maze_dataset/tokenization/maze_tokenizer.py"
PM = "maze_dataset/plotting/plot_maze.py"

MUTANTS = [
    # (id, property, file, old, new)
    ("c01-wilson-mark-c2", "C01", G, "visited[c_1[0], c_1[1]] = True", "visited[c_2[0], c_2[1]] = True"),
    ("c01-perc-no-boundary-fill", "C01", G, "        connection_list = _fill_edges_with_walls(connection_list)\n\n        output: LatticeMaze", "        output: LatticeMaze"),
    ("c01-dfs-greater-endpoint", "C01", G, "                clist_node: Coord = (\n                    current_coord if (delta.sum() > 0) else chosen_neighbor\n                )", "                clist_node: Coord = (\n                    chosen_neighbor if (delta.sum() > 0) else current_coord\n                )"),
    ("c02-heuristic-x2", "C02", L, "return np.abs(a[0] - b[0]) + np.abs(a[1] - b[1])", "return 2 * (np.abs(a[0] - b[0]) + np.abs(a[1] - b[1]))"),
    ("c02-swallow-raise", "C02", L, "        raise ValueError(\n            \"A solution could not be found!\",", "        return np.array([c_start, c_end])\n        raise ValueError(\n            \"A solution could not be found!\","),
    ("c03-no-discard-start", "C03", L, "            allowed_end_set.discard(start_pos)", "            pass"),
    ("c03-deadend-ge", "C03", L, "filter(lambda x: len(self.get_coord_neighbors(x)) == 1, allowed_end_set)", "filter(lambda x: len(self.get_coord_neighbors(x)) >= 1, allowed_end_set)"),
    ("c03-arange-minus1", "C03", MD, "maze_indexes: Int[np.int8, \"maze_index\"] = np.arange(cfg_cpy.n_mazes)", "maze_indexes: Int[np.int8, \"maze_index\"] = np.arange(cfg_cpy.n_mazes - (1 if cfg_cpy.n_mazes > 30 else 0))"),
    ("c04-skip-reseed", "C04", DS, "        set_reproducibility(self.seed)", "        if self.seed != GLOBAL_SEED:\n            set_reproducibility(self.seed)"),
    ("c04-from_config-fixes-up-callers-n_mazes", "C04", DS, "            output = output._apply_filters_from_config()\n", "            output = output._apply_filters_from_config()\n            cfg.n_mazes = len(output)\n"),
    ("c05-soln-cat-split", "C05", MD, "np.cumsum(maze_solution_lengths)[:-1], axis=0", "np.cumsum(maze_solution_lengths)[1:], axis=0"),
    ("c05-minimal-int8-lengths", "C05", MD, "maze_solution_lengths: np.ndarray = np.empty((n_mazes,), dtype=np.int32)", "maze_solution_lengths: np.ndarray = np.empty((n_mazes,), dtype=np.int8)"),
    ("c05-drop-collected", "C05", MD, "            cfg=MazeDatasetConfig.load(data[\"cfg\"]),\n            generation_metadata_collected=data[\"generation_metadata_collected\"],\n            mazes=[", "            cfg=MazeDatasetConfig.load(data[\"cfg\"]),\n            generation_metadata_collected=None,\n            mazes=["),
    ("c06-swap-wall-connector", "C06", MT, "                True: VOCAB.CONNECTOR,\n                False: VOCAB.ADJLIST_WALL,\n            }\n            return [\n                lambda i: coord_tokenizer.to_tokens(edges[i, 0]),\n                lambda i: conn_token_map[is_conn[i]],\n                lambda i: get_cardinal_direction(edges[i]),", "                True: VOCAB.ADJLIST_WALL,\n                False: VOCAB.CONNECTOR,\n            }\n            return [\n                lambda i: coord_tokenizer.to_tokens(edges[i, 0]),\n                lambda i: conn_token_map[is_conn[i]],\n                lambda i: get_cardinal_direction(edges[i]),"),
    ("c06-cardinal-off-by-one", "C06", MT, "get_cardinal_direction(maze.solution[start_index : start_index + 2])", "get_cardinal_direction(maze.solution[end_index - 1 : end_index + 1])"),
    ("c06-east-west", "C06", CO, "    (0, -1): VOCAB.PATH_WEST,\n    (0, 1): VOCAB.PATH_EAST,", "    (0, -1): VOCAB.PATH_EAST,\n    (0, 1): VOCAB.PATH_WEST,"),
    ("c06-left-right", "C06", TU, "        case 1:\n            return VOCAB.PATH_LEFT\n        case -1:\n            return VOCAB.PATH_RIGHT", "        case 1:\n            return VOCAB.PATH_RIGHT\n        case -1:\n            return VOCAB.PATH_LEFT"),
    ("c06-walls-no-boundary-reset", "C06", MT, "                conn_list[0, -1, :] = False\n                conn_list[1, :, -1] = False\n", "                conn_list[0, -1, :] = False\n"),
    ("c07-origin-target-swap", "C07", L, "                start_pos=start_pos,\n                end_pos=end_pos,\n            )\n\n            is_targeted = True", "                start_pos=end_pos if len(tokens) > 400 else start_pos,\n                end_pos=start_pos if len(tokens) > 400 else end_pos,\n            )\n\n            is_targeted = True"),
    ("c07-from_adj_list-flip", "C07", L, "            if c_start[d] < c_end[d]:\n                x, y = c_start", "            if c_start[d] < c_end[d] or (c_start[d] > 15 and d == 1):\n                x, y = c_start"),
    ("c08-path-length-gt", "C08", MD, "        return len(maze.solution) >= min_length", "        return len(maze.solution) > min_length"),
    ("c08-percentile-ge", "C08", MD, "m for m in dataset if len(m.solution) > cutoff", "m for m in dataset if len(m.solution) >= cutoff"),
    ("c08-dup-self", "C08", MD, "                        <= minimum_difference_solution\n", "                        < minimum_difference_solution\n"),
    ("c08-wrapper-mutates-input", "C08", MD, "        new_dataset: MazeDataset = copy.deepcopy(\n            MazeDataset(\n                cfg=dataset.cfg,\n                mazes=[m for m in dataset.mazes if method(m, *args, **kwargs)],\n            )\n        )", "        new_dataset: MazeDataset = MazeDataset(\n                cfg=dataset.cfg,\n                mazes=[m for m in dataset.mazes if method(m, *args, **kwargs)],\n            )"),
    ("c09-eq-drops-solution", "C09", L, "self, other, (\"connection_list\", \"start_pos\", \"end_pos\", \"solution\")", "self, other, (\"connection_list\", \"start_pos\", \"end_pos\")"),
    ("c09-bound-gt", "C09", L, "            self.end_pos[0] >= self.grid_shape[0]\n", "            self.end_pos[0] > self.grid_shape[0]\n"),
    ("c10-solution-walk-visited", "C10", L, "                        tuple(coord) in solution_raw_list\n                        and not tuple(coord) in solution\n", "                        tuple(coord) in solution_raw_list\n                        and not tuple(coord) in solution[-1:]\n"),
    ("c10-bw-rowcol", "C10", L, "        connection_list[0] = pixel_grid[2::2, 1::2]\n\n        # Extract rightward connections\n        connection_list[1] = pixel_grid[1::2, 2::2]", "        connection_list[0] = pixel_grid[2::2, 1::2]\n\n        # Extract rightward connections\n        connection_list[1] = pixel_grid[1::2, 2::2] if grid_shape[0] == grid_shape[1] else pixel_grid[1::2, 2::2][::-1]"),
    ("c11-no-try", "C11", DS, "                except Exception as e:\n                    print_log(f\"failed to load dataset: {e}\")", "                except (OSError, KeyError) as e:\n                    print_log(f\"failed to load dataset: {e}\")"),
    ("c11-skip-diff", "C11", DS, "        cfg_diff: dict = cfg.diff(output.cfg, of_serialized=True)", "        cfg_diff: dict = cfg.diff(output.cfg, of_serialized=True) if not did_load_local else {}"),
    ("c11-save-only-if-missing", "C11", DS, "        if save_local and not did_load_local:", "        if save_local and not did_load_local and not dataset_path.exists():"),
    ("c12-historical-bug", "C12", G, "fully_connected=bool(len(visited_cells) == n_total_cells),", "fully_connected=bool(len(visited_cells) == n_accessible_cells),"),
    ("c12-perc-component-from-origin", "C12", G, "        output.generation_meta[\"visited_cells\"] = output.gen_connected_component_from(\n            start_coord\n        )", "        output.generation_meta[\"visited_cells\"] = output.gen_connected_component_from(\n            np.array([0, 0])\n        )"),
    ("c13-degrees-swap", "C13", L, "        degrees[:, 1:] += int_conn[1, :, :-1]  # Connections to west\n        degrees[1:, :] += int_conn[0, :-1, :]  # Connections to north", "        degrees[:, 1:] += int_conn[0, :, :-1]  # Connections to west\n        degrees[1:, :] += int_conn[1, :-1, :]  # Connections to north"),
    ("c13-fork-threshold", "C13", L, "            theshold: int = 1 if is_endpoint else 2", "            theshold: int = 1 if idx == 0 else 2"),
    ("c14-sortkey", "C14", UT, "key=lambda x: (max(x), x if x[0] % 2 == 0 else x[::-1])", "key=lambda x: (max(x), x if x[1] % 2 == 0 else x[::-1])"),
    ("c14-no-negative-check", "C14", MT, "            if any(token_id < 0 for token_id in token_ids):", "            if any(token_id < -4096 for token_id in token_ids):"),
    ("c15-forks-marked-unsupported", "C15", MT, "    @serializable_dataclass(frozen=True, kw_only=True)\n    class Forks(_StepSize):", "    @serializable_dataclass(frozen=True, kw_only=True)\n    @mark_as_unsupported(lambda self_: False)\n    class Forks(_StepSize):"),
    ("c15-stringify-drops-field", "C15", MT, "        if isinstance(v, bool):\n            return f\"{k}={str(v)[0]}\"", "        if isinstance(v, bool):\n            return f\"{k}={str(v)[0]}\" if k != \"shuffle_d0\" else \"shuffle_d0=F\""),
    ("c16-index-plus-one", "C16", CD, "np.searchsorted(self.dataset_cum_lengths, index + 1)", "np.searchsorted(self.dataset_cum_lengths, index + 1, side=\"right\") if index % 7 == 6 else np.searchsorted(self.dataset_cum_lengths, index + 1)"),
    ("c17-forget-endpoints", "C17", RZ, "    if endpoints_as_open:\n        for color in (PixelColors.START, PixelColors.END):", "    if endpoints_as_open:\n        for color in (PixelColors.START,):"),
    ("c17-frame-before-extension", "C17", RZ, "    output: np.ndarray = np.repeat(\n        np.repeat(\n            image,", "    output: np.ndarray = np.repeat(\n        np.repeat(\n            image if image.shape[0] < 19 else np.roll(image, 1, axis=0),"),
    ("c18-hash-omits-seed", "C18", MD, "        return stable_hash(json.dumps(self.serialize()))\n\n    def to_fname", "        return stable_hash(json.dumps({k: v for k, v in self.serialize().items() if k != \"seed\"}))\n\n    def to_fname"),
    ("c18-no-tuple-restore", "C18", MD, "                    else [tuple(x) for x in v]  # muutils/zanj saves tuples as lists", "                    else [tuple(x) if len(v) != 3 else x for x in v]  # muutils/zanj saves tuples as lists"),
    ("c19-path-loop-exit", "C19", G, "                    path = path[: loop_exit + 1]", "                    path = path[: loop_exit + 1] if len(path) - loop_exit < 5 else path[: loop_exit + 2]"),
    ("c19-no-backtrack", "C19", G, "                next_cell: Coord = neighbors[np.random.choice(neighbors.shape[0])]", "                next_cell: Coord = neighbors[np.random.choice(neighbors.shape[0])]\n                if len(path) > 1 and np.array_equal(next_cell, path[-2]):\n                    next_cell = neighbors[np.random.choice(neighbors.shape[0])]"),
    ("c20-rowcol-swap-strips", "C20", PM, "                if not connection_list_processed[1, row, col]:\n                    img[\n                        row * self.unit_length + 1 : (row + 1) * self.unit_length,\n                        (col + 1) * self.unit_length,", "                if not connection_list_processed[1, row, col] and not (row == 5 and col == 0):\n                    img[\n                        row * self.unit_length + 1 : (row + 1) * self.unit_length,\n                        (col + 1) * self.unit_length,"),
    ("c20-point-swap", "C20", PM, "        point = np.array([point[1], point[0]])", "        point = np.array([point[1], point[0]]) if point[0] != 6 else np.array([point[0], point[1]])"),
]


def run_one(m, keep=False):
    mid, prop, rel, old, new = m
    wt = tempfile.mkdtemp(prefix=f"selfmut-{mid}-", dir="/tmp")
    try:
        subprocess.run(["git", "-C", "/repo", "worktree", "add", "-q", "--detach", wt + "/r", "HEAD"], check=True, capture_output=True)
        p = os.path.join(wt, "r", rel)
        s = open(p).read()
        if s.count(old) != 1:
            return mid, prop, "PATTERN-NOT-FOUND", f"{s.count(old)} occurrences"
        open(p, "w").write(s.replace(old, new))
        env = dict(os.environ, VMON_REPO=os.path.join(wt, "r"), VERIF_SEED="0")
        r = subprocess.run(["/venv/bin/python", "-m", "vmon", prop, "--tier", "quick", "--no-evidence"], cwd=ROOT, env=env, capture_output=True, text=True, timeout=1800)
        mech = [ln.strip() for ln in r.stdout.splitlines() if ln.strip().startswith("mechanism:")]
        status = {0: "MISSED", 1: "CAUGHT", 2: "INCONCLUSIVE"}.get(r.returncode, f"rc={r.returncode}")
        return mid, prop, status, "; ".join(mech[:3]) or r.stdout[-300:].replace("\n", " | ")
    finally:
        subprocess.run(["git", "-C", "/repo", "worktree", "remove", "--force", wt + "/r"], capture_output=True)
        shutil.rmtree(wt, ignore_errors=True)


def main():
    ap = argparse.ArgumentParser()
    ap.add_argument("--only", default="")
    ap.add_argument("--jobs", type=int, default=3)
    a = ap.parse_args()
    only = set(x for x in a.only.split(",") if x)
    ms = [m for m in MUTANTS if not only or m[1] in only or m[0] in only]
    out = []
    with ThreadPoolExecutor(a.jobs) as ex:
        for res in ex.map(run_one, ms):
            print(f"{res[2]:12s} {res[1]} {res[0]:32s} {res[3][:200]}", flush=True)
            out.append(res)
    cum_path = os.path.join(ROOT, "tools", "selfmut_results.json")
    cum = json.load(open(cum_path)) if os.path.exists(cum_path) else {}
    for mid, prop, status, detail in out:
        cum[mid] = dict(property=prop, status=status, detail=detail[:300])
    json.dump(cum, open(cum_path, "w"), indent=1, sort_keys=True)
    missed = [r for r in out if r[2] != "CAUGHT"]
    print(f"{len(out) - len(missed)}/{len(out)} caught")
    return 1 if missed else 0


if __name__ == "__main__":
    sys.exit(main())
