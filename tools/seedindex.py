#!/usr/bin/env python3
"""Rebuild seeded/INDEX.md from the meta.json files."""
import glob
import json
import os

ROOT = os.path.dirname(os.path.dirname(os.path.abspath(__file__)))
rows = []
for f in sorted(glob.glob(os.path.join(ROOT, "seeded", "*", "meta.json"))):
    m = json.load(open(f))
    first = (m.get("needs_to_manifest") or "").strip().splitlines()
    first = " ".join(x.strip("# ").strip() for x in first[:3])[:220]
    checks = "; ".join(f"{c}: {r['verdict']}" + (f" [{r['mechanisms'][0].split(' (x')[0]}]" if r.get("mechanisms") else "") for c, r in m.get("checks_quick", {}).items())
    rows.append((m["seed_id"], m["property"], ("yes" if m.get("confirmed") else "NO") + (" (KNOWN MISS)" if m.get("known_miss") else ""), m.get("tests_summary") or "(suite not re-run yet)", checks, first))
with open(os.path.join(ROOT, "seeded", "INDEX.md"), "w") as out:
    out.write("# Independently written property-breaking changes\n\nEach directory holds `patch.diff` (apply with `git -C /repo apply`), `demo.py` (exits 0 on the clean tree, non-zero with the patch),\n"
              "`notes.md` (author's description) and `meta.json` (what was run and what each quick check said).\n\n"
              "| id | property | confirmed | repository suite with the patch | quick checks against the patched tree | what it is |\n|---|---|---|---|---|---|\n")
    for r in rows:
        out.write("| " + " | ".join(str(x).replace("|", "/") for x in r) + " |\n")
print(len(rows), "seeds indexed")
