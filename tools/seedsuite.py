#!/usr/bin/env python3
"""Run the repository's own test suite against each seeded change (scratch worktree, removed afterwards) and
record the result in seeded/<id>/meta.json.   tools/seedsuite.py [--jobs N] [--force] [ids...]"""
import argparse
import glob
import json
import os
import re
import shutil
import subprocess
import tempfile
import time

ROOT = os.path.dirname(os.path.dirname(os.path.abspath(__file__)))
PY = "/venv/bin/python"


def sh(cmd, cwd=None, env=None, timeout=7200):
    return subprocess.run(cmd, cwd=cwd, env=env, capture_output=True, text=True, timeout=timeout)


def main():
    ap = argparse.ArgumentParser()
    ap.add_argument("ids", nargs="*")
    ap.add_argument("--jobs", type=int, default=6)
    ap.add_argument("--force", action="store_true")
    a = ap.parse_args()
    ids = a.ids or sorted(os.path.basename(os.path.dirname(p)) for p in glob.glob(os.path.join(ROOT, "seeded", "*", "meta.json")))
    for sid in ids:
        d = os.path.join(ROOT, "seeded", sid)
        meta = json.load(open(os.path.join(d, "meta.json")))
        if meta.get("tests_rc") is not None and not a.force:
            continue
        tmp = tempfile.mkdtemp(prefix=f"seedsuite-{sid}-", dir="/tmp")
        wt = os.path.join(tmp, "r")
        try:
            sh(["git", "-C", "/repo", "worktree", "add", "-q", "--detach", wt, "HEAD"])
            r = sh(["git", "-C", wt, "apply", os.path.join(d, "patch.diff")])
            if r.returncode != 0:
                meta["tests_summary"] = "patch does not apply: " + r.stderr[-200:]
                meta["tests_rc"] = -1
            else:
                env = dict(os.environ, PYTHONPATH=wt, PYTHONDONTWRITEBYTECODE="1", MPLBACKEND="Agg")
                t0 = time.time()
                rt = sh([PY, "-m", "pytest", "tests", "-q", "-p", "no:cacheprovider", "-n", str(a.jobs), "--timeout=900"], cwd=wt, env=env)
                tail = [ln for ln in rt.stdout.splitlines() if re.search(r"\d+ (passed|failed)", ln)]
                meta["tests_rc"] = rt.returncode
                meta["tests_summary"] = tail[-1].strip("= ") if tail else rt.stdout[-300:]
                meta["tests_wall_s"] = round(time.time() - t0)
                if rt.returncode != 0:
                    meta["tests_failed"] = [ln for ln in rt.stdout.splitlines() if ln.startswith("FAILED")][:10]
            meta["confirmed"] = bool(meta.get("demo_clean_rc") == 0 and meta.get("demo_patched_rc", 0) != 0 and meta.get("patch_applies") and meta["tests_rc"] == 0)
            json.dump(meta, open(os.path.join(d, "meta.json"), "w"), indent=1)
            print(f"{sid}: tests rc={meta['tests_rc']} {meta['tests_summary']} ({meta.get('tests_wall_s')}s)", flush=True)
        finally:
            sh(["git", "-C", "/repo", "worktree", "remove", "--force", wt])
            shutil.rmtree(tmp, ignore_errors=True)


if __name__ == "__main__":
    main()
