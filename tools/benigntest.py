#!/usr/bin/env python3
"""Run the checks against an independently written behaviour-changing but property-PRESERVING change (false-alarm test).

    tools/seedtest.py <src-dir with patch.diff/demo.py/notes.md> <seed-id> <PROP> [--checks C01,C02|all] [--no-tests]

Steps (all in a scratch worktree outside /repo and /verif, removed afterwards):
  1 clean tree: demo exits 0            2 patch applies; demo exits non-zero
  3 repository test suite passes with the patch (unless --no-tests)
  4 quick checks run against the patched tree (VMON_REPO); exit codes + mechanisms recorded
Writes /verif/benign/<seed-id>/{patch.diff, demo.py, notes.md, meta.json}.
"""
import argparse
import json
import os
import re
import shutil
import subprocess
import sys
import tempfile
import time

ROOT = os.path.dirname(os.path.dirname(os.path.abspath(__file__)))
PY = "/venv/bin/python"
ALL = [f"C{i:02d}" for i in range(1, 21)]


def sh(cmd, cwd=None, env=None, timeout=3600):
    return subprocess.run(cmd, cwd=cwd, env=env, capture_output=True, text=True, timeout=timeout)


def main():
    ap = argparse.ArgumentParser()
    ap.add_argument("src"); ap.add_argument("seed_id"); ap.add_argument("prop")
    ap.add_argument("--checks", default="own")
    ap.add_argument("--no-tests", action="store_true")
    ap.add_argument("--jobs", type=int, default=6)
    a = ap.parse_args()
    tmp = tempfile.mkdtemp(prefix=f"seedtest-{a.seed_id}-", dir="/tmp")
    wt = os.path.join(tmp, "r")
    meta = dict(seed_id=a.seed_id, property=a.prop, at=time.strftime("%Y-%m-%dT%H:%M:%S"), repo_head=sh(["git", "-C", "/repo", "rev-parse", "--short", "HEAD"]).stdout.strip())
    try:
        sh(["git", "-C", "/repo", "worktree", "add", "-q", "--detach", wt, "HEAD"])
        env = dict(os.environ, PYTHONPATH=wt, PYTHONDONTWRITEBYTECODE="1", MPLBACKEND="Agg")
        demo = os.path.join(a.src, "demo.py")
        r0 = sh([PY, demo], cwd=wt, env=env, timeout=1800)
        meta["demo_clean_rc"] = r0.returncode
        ap_ = sh(["git", "-C", wt, "apply", os.path.join(os.path.abspath(a.src), "patch.diff")])
        meta["patch_applies"] = ap_.returncode == 0
        if ap_.returncode != 0:
            meta["apply_error"] = ap_.stderr[-500:]
        r1 = sh([PY, demo], cwd=wt, env=env, timeout=1800)
        meta["demo_patched_rc"] = r1.returncode
        meta["demo_patched_tail"] = (r1.stdout + r1.stderr)[-600:]
        meta["files_changed"] = sh(["git", "-C", wt, "diff", "--stat"]).stdout.strip().splitlines()[:-1]
        if not a.no_tests:
            t0 = time.time()
            rt = sh([PY, "-m", "pytest", "tests", "-q", "-p", "no:cacheprovider", "-n", str(a.jobs), "--timeout=900"], cwd=wt, env=env, timeout=5400)
            tail = [ln for ln in rt.stdout.splitlines() if re.search(r"\d+ (passed|failed)", ln)]
            meta["tests_rc"] = rt.returncode
            meta["tests_summary"] = tail[-1] if tail else rt.stdout[-300:]
            meta["tests_wall_s"] = round(time.time() - t0)
        checks = [a.prop] if a.checks == "own" else (ALL if a.checks == "all" else a.checks.split(","))
        results = {}
        cenv = dict(os.environ, VMON_REPO=wt, VERIF_SEED="0")
        for c in checks:
            t0 = time.time()
            rc_ = sh([PY, "-m", "vmon", c, "--tier", "quick", "--no-evidence"], cwd=ROOT, env=cenv, timeout=3600)
            mech = [ln.strip()[len("mechanism: "):] for ln in rc_.stdout.splitlines() if ln.strip().startswith("mechanism:")]
            inc = [ln for ln in rc_.stdout.splitlines() if ln.startswith("INCONCLUSIVE")]
            results[c] = dict(rc=rc_.returncode, verdict={0: "held", 1: "VIOLATION", 2: "INCONCLUSIVE"}.get(rc_.returncode, "?"),
                              mechanisms=mech[:6], inconclusive=inc[:3], wall_s=round(time.time() - t0))
            print(f"  {a.seed_id}: check {c} -> {results[c]['verdict']} {mech[:2]}", flush=True)
        meta["checks_quick"] = results
        meta["caught_by"] = [c for c, r in results.items() if r["rc"] == 1]
        meta["how_run"] = ("scratch worktree of /repo HEAD + git apply patch.diff; demo.py with PYTHONPATH=<worktree>; pytest tests -n; "
                          "quick checks with VMON_REPO=<worktree> VERIF_SEED=0; worktree removed afterwards")
    finally:
        sh(["git", "-C", "/repo", "worktree", "remove", "--force", wt])
        shutil.rmtree(tmp, ignore_errors=True)
    dst = os.path.join(ROOT, "benign", a.seed_id)
    os.makedirs(dst, exist_ok=True)
    for f in ("patch.diff", "demo.py", "notes.md"):
        if os.path.exists(os.path.join(a.src, f)) and os.path.realpath(os.path.join(a.src, f)) != os.path.realpath(os.path.join(dst, f)):
            shutil.copyfile(os.path.join(a.src, f), os.path.join(dst, f))
    notes = open(os.path.join(a.src, "notes.md")).read() if os.path.exists(os.path.join(a.src, "notes.md")) else ""
    meta["needs_to_manifest"] = notes[:1500]
    old_meta_path = os.path.join(dst, "meta.json")
    if os.path.exists(old_meta_path):
        try:
            old = json.load(open(old_meta_path))
            for k in ("tests_rc", "tests_summary", "tests_wall_s", "tests_failed", "detection_history"):
                if k in old and k not in meta:
                    meta[k] = old[k]
        except ValueError:
            pass
    ok = meta.get("demo_clean_rc") == 0 and meta.get("demo_patched_rc") == 0 and meta.get("patch_applies")
    meta["confirmed"] = bool(ok)
    meta["kind"] = "benign: the property still holds with this change; every check must stay silent"
    meta["false_alarms"] = [c for c, r in meta.get("checks_quick", {}).items() if r["rc"] == 1]
    meta["inconclusive"] = [c for c, r in meta.get("checks_quick", {}).items() if r["rc"] not in (0, 1)]
    json.dump(meta, open(os.path.join(dst, "meta.json"), "w"), indent=1)
    print(f"{a.seed_id}: demo clean/patched rc={meta.get('demo_clean_rc')}/{meta.get('demo_patched_rc')} (both must be 0) FALSE-ALARMS={meta['false_alarms']} inconclusive={meta['inconclusive']}")
    return 0


if __name__ == "__main__":
    sys.exit(main())
