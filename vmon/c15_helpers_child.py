"""fresh-process side of C15: enumerate, use the module's sampling helper, enumerate again; print the sizes seen"""
from __future__ import annotations

import json
import sys
import warnings


def main():
    warnings.filterwarnings("ignore")
    from maze_dataset.tokenization import MazeTokenizerModular
    from maze_dataset.tokenization import all_tokenizers as at

    out = {}
    first = at.get_all_tokenizers()
    out["n_first"] = len(first)
    out["default_in_first"] = 1
    try:
        smp = at.sample_tokenizers_for_test(7)
        out["n_sample"] = len(smp)
    except Exception as e:  # noqa: BLE001
        out["sample_error"] = f"{type(e).__name__}: {e}"[:200]
    again = at.get_all_tokenizers()
    out["n_again"] = len(again)
    out["n_first_object_now"] = len(first)
    out["default_in_again"] = 1
    json.dump(out, sys.stdout)


if __name__ == "__main__":
    main()
