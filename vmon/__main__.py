"""CLI:  python -m vmon <Cxx> --tier quick|thorough [--replay PATH] [--shard K]"""

from __future__ import annotations

import argparse
import os
import sys


def main():
    ap = argparse.ArgumentParser(prog="vmon")
    ap.add_argument("prop")
    ap.add_argument("--tier", choices=["quick", "thorough"], default=None)
    ap.add_argument("--replay", default=None)
    ap.add_argument("--shard", type=int, default=None)
    ap.add_argument("--no-evidence", action="store_true")
    a = ap.parse_args()
    sys.path.insert(0, os.path.dirname(os.path.dirname(os.path.abspath(__file__))))
    from . import runner

    prop = a.prop.upper()
    if a.replay:
        return runner.replay(prop, a.replay)
    tier = a.tier or os.environ.get("VERIF_TIER", "quick")
    if tier not in ("quick", "thorough"):
        tier = "quick"
    try:
        seed = int(os.environ.get("VERIF_SEED", "0"))
    except ValueError:
        seed = 0
    return runner.run_check(prop, tier, seed, only_shard=a.shard, write_evidence=not a.no_evidence and a.shard is None)


if __name__ == "__main__":
    sys.exit(main())
