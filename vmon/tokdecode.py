"""Independent decoder of MazeTokenizerModular streams, configured only from tokenizer parameters (tokspace dicts).
Pure python: no library imports.  Raises DecodeError with a reason when the stream does not have the promised shape."""

from __future__ import annotations

DELIMS = ["<ADJLIST_START>", "<ADJLIST_END>", "<ORIGIN_START>", "<ORIGIN_END>", "<TARGET_START>", "<TARGET_END>", "<PATH_START>", "<PATH_END>"]
COMPASS = {"NORTH": (-1, 0), "EAST": (0, 1), "SOUTH": (1, 0), "WEST": (0, -1)}
CLOCKWISE = [(-1, 0), (0, 1), (1, 0), (0, -1)]  # N, E, S, W  (rows grow south, columns grow east)


class DecodeError(Exception):
    pass


def coord_width(p) -> int:
    c = p["coord"]
    return 1 if c == "UT" else 2 + int(c[1]) + int(c[2]) + int(c[3])


def read_coord(toks, i, p):
    """returns (cell, next index)"""
    c = p["coord"]
    try:
        if c == "UT":
            t = toks[i]
            if not (t.startswith("(") and t.endswith(")") and t.count(",") == 1):
                raise DecodeError(f"not a UT coordinate token: {t!r}")
            a, b = t[1:-1].split(",")
            return (int(a), int(b)), i + 1
        _, pre, intra, post = c
        if pre:
            if toks[i] != "(":
                raise DecodeError(f"expected '(' got {toks[i]!r}")
            i += 1
        a = int(toks[i]); i += 1
        if intra:
            if toks[i] != ",":
                raise DecodeError(f"expected ',' got {toks[i]!r}")
            i += 1
        b = int(toks[i]); i += 1
        if post:
            if toks[i] != ")":
                raise DecodeError(f"expected ')' got {toks[i]!r}")
            i += 1
        return (a, b), i
    except (IndexError, ValueError) as e:
        raise DecodeError(f"coordinate unreadable at {i}: {e}") from e


def split_regions(tokens, kind: str):
    """delimiters exactly once and in order; returns dict region -> token list (only the regions the maze kind has)"""
    want = {"LatticeMaze": DELIMS[:2], "TargetedLatticeMaze": DELIMS[:6], "SolvedMaze": DELIMS}[kind]
    pos = []
    for d in DELIMS:
        n = tokens.count(d)
        if d in want:
            if n != 1:
                raise DecodeError(f"delimiter {d} occurs {n} times")
            pos.append(tokens.index(d))
        elif n != 0:
            raise DecodeError(f"delimiter {d} present for a {kind}")
    if pos != sorted(pos):
        raise DecodeError(f"delimiters out of order: {pos}")
    if pos[0] != 0 or pos[-1] != len(tokens) - 1:
        raise DecodeError("stream does not start/end with its first/last delimiter")
    for a, b in zip(pos[1::2], pos[2::2]):
        if b != a + 1:
            raise DecodeError(f"tokens between regions at {a}..{b}")
    names = ["adj", "origin", "target", "path"]
    return {names[k]: tokens[pos[2 * k] + 1:pos[2 * k + 1]] for k in range(len(pos) // 2)}


def decode_adj(toks, p):
    """list of (lead cell, trail cell, is_connection)"""
    out = []
    i = 0
    cw = coord_width(p)
    tw = cw if p["adj_cls"] == "AdjListCoord" else 1
    n_edge = cw + 1 + tw + int(p["adj_post"])
    if len(toks) % n_edge:
        raise DecodeError(f"adjacency region of {len(toks)} tokens is not a multiple of the edge width {n_edge}")
    while i < len(toks):
        parts = {}
        order = ["lead", "trail"]
        order.insert(p["ordinal"], "conn")
        for what in order:
            if what == "conn":
                if toks[i] not in ("<-->", "<XX>"):
                    raise DecodeError(f"expected connector/wall token at {i}, got {toks[i]!r}")
                parts["conn"] = toks[i] == "<-->"; i += 1
            elif what == "lead":
                parts["lead"], i = read_coord(toks, i, p)
            else:
                if p["adj_cls"] == "AdjListCoord":
                    parts["trail"], i = read_coord(toks, i, p)
                else:
                    parts["dir"] = toks[i]; i += 1
        if p["adj_cls"] == "AdjListCardinal":
            if parts["dir"] not in COMPASS:
                raise DecodeError(f"not a cardinal token: {parts['dir']!r}")
            d = COMPASS[parts["dir"]]
            parts["trail"] = (parts["lead"][0] + d[0], parts["lead"][1] + d[1])
        if p["adj_post"]:
            if toks[i] != ";":
                raise DecodeError(f"expected ';' at {i}, got {toks[i]!r}")
            i += 1
        out.append((parts["lead"], parts["trail"], parts["conn"]))
    return out


def decode_origin(toks, p):
    c, i = read_coord(toks, 0, p)
    if i != len(toks):
        raise DecodeError(f"origin region has {len(toks)} tokens, coordinate uses {i}")
    return c


def decode_target(toks, p):
    if p["seq"] == "AOP":
        if toks:
            raise DecodeError(f"AOP target region not empty: {toks}")
        return None
    c, i = read_coord(toks, 0, p)
    if p["tgt_post"]:
        if i >= len(toks) or toks[i] != "||":
            raise DecodeError("target post delimiter missing")
        i += 1
    if i != len(toks):
        raise DecodeError(f"target region has trailing tokens {toks[i:]}")
    return c


def decode_path(toks, p):
    """returns (leading cell or None, list of steps); a step is a dict with the decoded representation of each step tokenizer"""
    i = 0
    lead = None
    if "Coord" in p["steps"]:
        if p["p_pre"]:
            if i >= len(toks) or toks[i] != "STEP":
                raise DecodeError("leading STEP missing")
            i += 1
        lead, i = read_coord(toks, i, p)
        if p["p_intra"]:
            if i >= len(toks) or toks[i] != ":":
                raise DecodeError("leading ':' missing")
            i += 1
    steps = []
    while i < len(toks):
        st = {}
        if p["p_pre"]:
            if toks[i] != "STEP":
                raise DecodeError(f"expected STEP at {i}, got {toks[i]!r}")
            i += 1
        for name in p["steps"]:
            if i >= len(toks):
                raise DecodeError("path region ends inside a step")
            if name == "Coord":
                st["Coord"], i = read_coord(toks, i, p)
            elif name == "Cardinal":
                if toks[i] not in COMPASS:
                    raise DecodeError(f"expected cardinal token, got {toks[i]!r}")
                st["Cardinal"] = COMPASS[toks[i]]; i += 1
            elif name == "Relative":
                if toks[i] not in ("FORWARD", "BACKWARD", "LEFT", "RIGHT", "STAY"):
                    raise DecodeError(f"expected relative token, got {toks[i]!r}")
                st["Relative"] = toks[i]; i += 1
            else:
                t = toks[i]
                if not (t.startswith("+") and t[1:].isdigit()):
                    raise DecodeError(f"expected distance token, got {t!r}")
                st["Distance"] = int(t[1:]); i += 1
            if p["p_intra"]:
                if i >= len(toks) or toks[i] != ":":
                    raise DecodeError(f"expected ':' after {name}")
                i += 1
        if p["p_post"]:
            if i >= len(toks) or toks[i] != "THEN":
                raise DecodeError("expected THEN")
            i += 1
        steps.append(st)
    return lead, steps


def rel_of(heading, move) -> str:
    if move == heading:
        return "FORWARD"
    if move == (-heading[0], -heading[1]):
        return "BACKWARD"
    k = CLOCKWISE.index(heading)
    if move == CLOCKWISE[(k + 1) % 4]:
        return "RIGHT"
    if move == CLOCKWISE[(k - 1) % 4]:
        return "LEFT"
    return "?"


def expected_steps(sol, degrees, p):
    """list of dicts the decoded steps must equal.  degrees: cell -> degree (for Forks)"""
    n = len(sol)
    if p["step_size"] == "Singles":
        idx = list(range(n))
    else:
        idx = [i for i, c in enumerate(sol) if i == 0 or i == n - 1 or degrees[c] > 2]
    out = []
    for i, j in zip(idx[:-1], idx[1:]):
        st = {}
        move = (sol[i + 1][0] - sol[i][0], sol[i + 1][1] - sol[i][1])
        heading = (-1, 0) if i == 0 else (sol[i][0] - sol[i - 1][0], sol[i][1] - sol[i - 1][1])
        for name in p["steps"]:
            if name == "Coord":
                st["Coord"] = sol[j]
            elif name == "Cardinal":
                st["Cardinal"] = move
            elif name == "Relative":
                st["Relative"] = rel_of(heading, move)
            else:
                st["Distance"] = j - i
        out.append(st)
    return out
