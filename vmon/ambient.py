"""Ambient monitors: ride along with every workload (DESIGN section 4).

GeneratorMonitor  gen_* returns      -> C01 well-formedness + C12 metadata truth
SolverMonitor     find_shortest_path -> C02 soundness/optimality/completeness
SolvedMazeMonitor SolvedMaze.__init__-> start/end equal the solution's ends (C03)
"""

from __future__ import annotations

import threading

import numpy as np

from . import oracles
from .probes import Probes
from .ref import Graph

_GEN_ARGS = {
    "gen_dfs": ("accessible_cells", "max_tree_depth", "do_forks", "randomized_stack", "start_coord", "lattice_dim"),
    "gen_wilson": (),
    "gen_percolation": ("p", "start_coord", "lattice_dim"),
    "gen_dfs_percolation": ("p", "accessible_cells", "max_tree_depth", "start_coord", "lattice_dim"),
}


def install(ctx, generators=True, solver=True, solved=True, max_solver_cells=400):
    import maze_dataset  # noqa: F401
    from maze_dataset.generation.generators import LatticeMazeGenerators
    from maze_dataset.maze.lattice_maze import LatticeMaze, SolvedMaze

    P = Probes.get()
    entry: dict[int, dict] = {}

    if generators:
        for gen, argnames in _GEN_ARGS.items():
            fn = getattr(LatticeMazeGenerators, gen)

            def on_start(fr, _gen=gen, _args=argnames):
                loc = fr.f_locals
                d = {a: loc.get(a) for a in _args}
                gs = loc.get("grid_shape")
                d["__grid_shape__"] = None if gs is None else np.array(gs).copy()
                if isinstance(d.get("start_coord"), np.ndarray):
                    d["start_coord"] = d["start_coord"].copy()
                entry[(threading.get_ident(), id(fr))] = d

            def on_ret(fr, retval, _gen=gen):
                d = entry.pop((threading.get_ident(), id(fr)), None)
                if d is None:
                    return
                gs = d.pop("__grid_shape__")
                if d.get("lattice_dim", 2) != 2:
                    return
                kwargs = {k: v for k, v in d.items() if k != "lattice_dim"}
                ctx.tally(f"ambient:gen:{_gen}")
                case = dict(ambient=True, gen=_gen, grid_shape=gs, kwargs=kwargs)
                try:
                    g = oracles.check_c01(ctx, _gen, gs, kwargs, retval, case, owner="C01")
                    if g is not None and _gen != "gen_dfs_percolation_inner":
                        # the gen_dfs call nested inside gen_dfs_percolation is judged as gen_dfs
                        oracles.check_c12(ctx, _gen, gs, kwargs, retval, g, case, owner="C12")
                except Exception as e:  # noqa: BLE001  monitor bug must not masquerade as held
                    ctx.note(f"ambient generator monitor crashed: {type(e).__name__}: {e}")
                    ctx.tally("ambient:monitor-crash")

            def on_unw(fr, exc):
                entry.pop((threading.get_ident(), id(fr)), None)

            P.on_start(fn, on_start, name=gen)
            P.on_return(fn, on_ret, name=gen)
            P.on_unwind(fn, on_unw, name=gen)

    if solver:
        fsp = LatticeMaze.find_shortest_path

        def _obs(fr):
            loc = fr.f_locals
            self_ = loc.get("self")
            cl = getattr(self_, "connection_list", None)
            if not isinstance(cl, np.ndarray) or cl.ndim != 3 or cl.shape[0] != 2:
                return None
            if cl.shape[1] * cl.shape[2] > max_solver_cells:
                return None
            g = Graph(cl)
            if not g.boundary_ok():
                return None
            try:
                s = tuple(int(x) for x in loc["c_start"])
                e = tuple(int(x) for x in loc["c_end"])
            except Exception:  # noqa: BLE001
                return None
            if len(s) != 2 or len(e) != 2 or not g.in_grid(s) or not g.in_grid(e):
                return None
            return g, s, e

        def on_ret(fr, retval):
            o = _obs(fr)
            if o is None:
                return
            g, s, e = o
            ctx.tally("ambient:solver:return")
            oracles.check_c02(ctx, g, s, e, retval, None, dict(ambient=True, cl=g.cl, s=s, e=e), owner="C02")

        def on_unw(fr, exc):
            o = _obs(fr)
            if o is None:
                return
            g, s, e = o
            ctx.tally("ambient:solver:raise")
            oracles.check_c02(ctx, g, s, e, None, exc, dict(ambient=True, cl=g.cl, s=s, e=e), owner="C02")

        P.on_return(fsp, on_ret, name="find_shortest_path")
        P.on_unwind(fsp, on_unw, name="find_shortest_path")
        P.count_calls(fsp, name="find_shortest_path")

    if solved:
        def on_ret(fr, retval):
            loc = fr.f_locals
            self_ = loc.get("self")
            if loc.get("allow_invalid"):
                return
            sol = getattr(self_, "solution", None)
            if sol is None:
                return
            ctx.tally("ambient:solvedmaze:init")
            try:
                ok = (np.array_equal(np.asarray(self_.start_pos), np.asarray(sol)[0])
                      and np.array_equal(np.asarray(self_.end_pos), np.asarray(sol)[-1]))
            except Exception:  # noqa: BLE001
                ok = False
            ctx.check(ok, "C03/solvedmaze-ends-disagree-with-solution",
                      lambda: f"start={self_.start_pos} end={self_.end_pos} sol={np.asarray(sol).tolist()}",
                      dict(ambient=True), owner="C03")

        P.on_return(SolvedMaze.__init__, on_ret, name="SolvedMaze.__init__")
    return P
