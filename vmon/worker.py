"""One shard of one property check, run in its own process:

    python -m vmon.worker <Cxx> <tier> <seed> <shard> <nshards> <out.json>
"""

from __future__ import annotations

import importlib
import os
import sys
import traceback
import warnings


def main(argv):
    prop, tier, seed, shard, nshards, out = argv[:6]
    seed, shard, nshards = int(seed), int(shard), int(nshards)
    os.environ.setdefault("MPLBACKEND", "Agg")
    warnings.filterwarnings("ignore")
    from .core import Ctx

    ctx = Ctx(prop, tier, seed, shard, nshards)
    if not __debug__:
        ctx.tally("shards-under-python-O")
    mod = importlib.import_module(f"vmon.props.{prop.lower()}")
    probe_report = {}
    try:
        import maze_dataset

        repo = os.environ.get("VMON_REPO", "/repo")
        if not os.path.realpath(maze_dataset.__file__).startswith(os.path.realpath(repo) + os.sep):
            raise RuntimeError(f"maze_dataset imported from {maze_dataset.__file__}, expected under {repo}")
        from . import ambient
        from .probes import Probes

        amb = getattr(mod, "AMBIENT", dict(generators=True, solver=True, solved=True))
        if amb:
            ambient.install(ctx, **amb)
        P = Probes.get()
        for spec in getattr(mod, "ANCHORS", []):
            try:
                fn = _resolve(spec)
                P.cover(fn, name=spec)
            except Exception as e:  # noqa: BLE001
                ctx.note(f"anchor {spec} not resolvable: {type(e).__name__}: {e}")
                ctx.tally("anchor-unresolvable")
        mod.run(ctx)
        from . import lib as _lib
        for _k, _v in _lib.LAYOUT_TALLY.items():
            if _v:
                ctx.tally(f"harness-objects:array-layout:{_k}", _v)
        for _k, _v in _lib.DTYPE_TALLY.items():
            if _v:
                ctx.tally(f"harness-objects:coordinate-dtype:{_k}", _v)
        probe_report = P.report()
    except BaseException as e:  # noqa: BLE001
        ctx.note("shard crashed: " + traceback.format_exc()[-3000:])
        ctx.tally("shard-crash")
        ctx.dump(out)
        print(f"shard {shard} crashed: {type(e).__name__}: {e}", file=sys.stderr)
        traceback.print_exc()
        return 3
    ctx.tallies.update({})
    ctx.dump(out)
    import json

    with open(out + ".probe", "w") as f:
        json.dump(probe_report, f)
    return 0


def _resolve(spec: str):
    """'pkg.mod:Qual.name' -> object (staticmethod/classmethod unwrapped by probes.code_of)"""
    import inspect

    modname, qual = spec.split(":")
    obj = importlib.import_module(modname)
    parts = qual.split(".")
    for i, p in enumerate(parts):
        if i == len(parts) - 1 and inspect.isclass(obj):
            obj = inspect.getattr_static(obj, p)
        else:
            obj = getattr(obj, p)
    return obj


if __name__ == "__main__":
    sys.exit(main(sys.argv[1:]))
