"""sys.monitoring (PEP 669) probe layer.

Observers are attached to *code objects*, so they fire however the function is
reached (aliases bound before the harness started, GENERATORS_MAP, pool workers
after fork).  No source hook in /repo is needed.

  on_return(func, cb)   cb(frame, retval)        at every normal return
  on_start(func, cb)    cb(frame)                at every entry
  on_unwind(func, cb)   cb(frame, exc)           when an exception leaves the function
  cover(func)           first-hit line coverage (callback returns DISABLE)
"""

from __future__ import annotations

import functools
import sys
import threading
import types

mon = sys.monitoring
TOOL = 3
E = mon.events


def code_of(func) -> types.CodeType:
    f = func
    seen = 0
    while seen < 10:
        if isinstance(f, (staticmethod, classmethod)):
            f = f.__func__
        elif isinstance(f, property):
            f = f.fget
        elif isinstance(f, functools.cached_property):
            f = f.func
        elif hasattr(f, "__wrapped__") and not isinstance(f, types.CodeType):
            f = f.__wrapped__
        else:
            break
        seen += 1
    if isinstance(f, types.CodeType):
        return f
    if hasattr(f, "__func__"):
        f = f.__func__
    return f.__code__


def nested_codes(code: types.CodeType):
    yield code
    for c in code.co_consts:
        if isinstance(c, types.CodeType):
            yield from nested_codes(c)


def code_lines(code: types.CodeType) -> set[int]:
    out = set()
    for c in nested_codes(code):
        for _s, _e, ln in c.co_lines():
            if ln is not None and ln != c.co_firstlineno:
                out.add(ln)
    return out


class Probes:
    _inst = None

    def __init__(self):
        try:
            mon.use_tool_id(TOOL, "vmon")
        except ValueError:
            pass
        self.ret: dict[types.CodeType, list] = {}
        self.start: dict[types.CodeType, list] = {}
        self.unwind: dict[types.CodeType, list] = {}
        self.local_events: dict[types.CodeType, int] = {}
        self.hits: dict[str, int] = {}
        self.names: dict[types.CodeType, str] = {}
        self.cov_total: dict[str, set[int]] = {}
        self.cov_hit: dict[str, set[int]] = {}
        self.cov_owner: dict[types.CodeType, str] = {}
        # re-entrancy guard per thread: a callback running in one thread must not make other threads skip theirs (the monitors'
        # own state has to stay consistent when the code under test is driven from several threads)
        self._tl = threading.local()
        mon.register_callback(TOOL, E.PY_RETURN, self._on_return)
        mon.register_callback(TOOL, E.PY_START, self._on_start)
        mon.register_callback(TOOL, E.LINE, self._on_line)
        mon.register_callback(TOOL, E.PY_UNWIND, self._on_unwind)
        self._unwind_enabled = False

    @classmethod
    def get(cls) -> "Probes":
        if cls._inst is None:
            cls._inst = Probes()
        return cls._inst

    @property
    def in_cb(self):
        return getattr(self._tl, "in_cb", False)

    @in_cb.setter
    def in_cb(self, v):
        self._tl.in_cb = v

    # ------------------------------------------------------------------
    def _add_local(self, code, ev):
        cur = self.local_events.get(code, 0) | ev
        self.local_events[code] = cur
        mon.set_local_events(TOOL, code, cur)

    def _name(self, func, code, name=None):
        n = name or getattr(func, "__qualname__", None) or code.co_qualname
        self.names.setdefault(code, n)
        self.hits.setdefault(self.names[code], 0)
        return self.names[code]

    def on_return(self, func, cb, name=None):
        code = code_of(func)
        self._name(func, code, name)
        self.ret.setdefault(code, []).append(cb)
        self._add_local(code, E.PY_RETURN)
        self.count_calls(func, name)

    def on_start(self, func, cb, name=None):
        code = code_of(func)
        self._name(func, code, name)
        self.start.setdefault(code, []).append(cb)
        self._add_local(code, E.PY_START)

    def on_unwind(self, func, cb, name=None):
        code = code_of(func)
        self._name(func, code, name)
        self.unwind.setdefault(code, []).append(cb)
        self.count_calls(func, name)
        if not self._unwind_enabled:
            mon.set_events(TOOL, mon.get_events(TOOL) | E.PY_UNWIND)
            self._unwind_enabled = True

    def count_calls(self, func, name=None):
        """anchor hit counter only"""
        code = code_of(func)
        n = self._name(func, code, name)
        if code not in self.start:
            self.start[code] = []
            self._add_local(code, E.PY_START)
        return n

    def cover(self, func, name=None):
        code = code_of(func)
        n = self._name(func, code, name)
        self.cov_total[n] = code_lines(code)
        self.cov_hit.setdefault(n, set())
        for c in nested_codes(code):
            self.cov_owner[c] = n
            self._add_local(c, E.LINE)
        self.count_calls(func, name)

    # ------------------------------------------------------------------
    def _on_start(self, code, offset):
        n = self.names.get(code)
        if n is not None:
            self.hits[n] = self.hits.get(n, 0) + 1
        cbs = self.start.get(code)
        if cbs and not self.in_cb:
            self.in_cb = True
            try:
                fr = sys._getframe(1)
                for cb in cbs:
                    cb(fr)
            finally:
                self.in_cb = False

    def _on_return(self, code, offset, retval):
        cbs = self.ret.get(code)
        if cbs and not self.in_cb:
            self.in_cb = True
            try:
                fr = sys._getframe(1)
                for cb in cbs:
                    cb(fr, retval)
            finally:
                self.in_cb = False

    def _on_unwind(self, code, offset, exc):
        cbs = self.unwind.get(code)
        if cbs and not self.in_cb:
            self.in_cb = True
            try:
                fr = sys._getframe(1)
                for cb in cbs:
                    cb(fr, exc)
            finally:
                self.in_cb = False

    def _on_line(self, code, line):
        n = self.cov_owner.get(code)
        if n is not None:
            self.cov_hit[n].add(line)
        return mon.DISABLE

    # ------------------------------------------------------------------
    def report(self) -> dict:
        cov = {}
        for n, tot in self.cov_total.items():
            hit = self.cov_hit.get(n, set()) & tot
            cov[n] = dict(hit=sorted(hit), total=len(tot), missed=sorted(tot - hit))
        return dict(anchor_hits=dict(self.hits), anchor_lines=cov)
