"""vmon: runtime monitors for maze-dataset properties C01..C20 (see /verif/DESIGN.md)."""
