"""C08 — dataset filters select exactly what they document and never disturb their input."""

from __future__ import annotations

import json
import math
import warnings

import numpy as np

from .. import c04_child, lib, ref
from ..ref import Graph
from .c05 import cfg_fields

LEVEL = "exploration"
TECHNIQUE = 'runtime monitoring: reference implementations of the seven filters judge every observed filter application (selection, order, provenance record, input snapshot unchanged) over boundary-hitting datasets and random filter sequences; from_config vs hand application'
RULE = ("every built-in filter (path_length, start_end_distance, cut_percentile_shortest, truncate_count, remove_duplicates_fast, "
        "remove_duplicates, custom_maze_filter, collect_generation_meta) applied to harness-built datasets that hit the boundaries "
        "(all-equal lengths, lengths straddling the percentile, exact duplicates at first/last/adjacent positions, near-duplicates "
        "at distance exactly thr and thr+1, empty results) with parameters swept over every boundary value present, singly and in "
        "random sequences of 1-5 filters; the result's mazes and order are compared with independent reference models, the input "
        "dataset (maze objects, content, length, configuration) with a snapshot taken before, the result configuration with "
        "input provenance + this filter and n_mazes == len; collected metadata with exact value counts; from_config(cfg with "
        "applied_filters) with hand application. non-trivial & distinct = distinct (dataset, filter, parameters) applications "
        "whose reference selection is a proper non-empty subset or that hit a boundary class")
ASSUMPTIONS = ["difference thresholds of remove_duplicates count differing array elements (np.sum(a != b)), as documented by its parameters",
               "np.percentile's default (linear) interpolation defines 'the p-th percentile'; re-implemented independently"]
NSHARDS = {"quick": 16, "thorough": 16}
FILTERS = ["path_length", "start_end_distance", "cut_percentile_shortest", "truncate_count", "remove_duplicates_fast",
           "remove_duplicates", "custom_maze_filter", "collect_generation_meta"]
THRESHOLDS = {"quick": {**{f"c08:filter:{f}": 100 for f in FILTERS}, "c08:empty-result": 20, "c08:all-kept": 20, "c08:proper-subset": 300,
                        "c08:boundary:all-equal-lengths": 20, "c08:boundary:near-dup-at-thr": 20, "c08:boundary:near-dup-at-thr+1": 20,
                        "c08:boundary:dup-first-last": 20, "c08:boundary:dup-adjacent": 20, "c08:boundary:dup-other-dtype": 20, "c08:sequences": 100, "c08:far-endpoints-int8": 4, "c08:custom-metadata": 40, "c08:generated-big": 12, "c08:from_config-big": 10,
                        "c08:from_config": 40, "c08:input-unchanged-checked": 1000, "c08:provenance-checked": 1000}}
THRESHOLDS["thorough"] = dict(THRESHOLDS["quick"])
ANCHORS = ["maze_dataset.dataset.maze_dataset:register_maze_filter", "maze_dataset.dataset.dataset:register_dataset_filter",
           "maze_dataset.dataset.maze_dataset:MazeDatasetFilters.path_length",
           "maze_dataset.dataset.maze_dataset:MazeDatasetFilters.start_end_distance",
           "maze_dataset.dataset.maze_dataset:MazeDatasetFilters.cut_percentile_shortest",
           "maze_dataset.dataset.maze_dataset:MazeDatasetFilters.truncate_count",
           "maze_dataset.dataset.maze_dataset:MazeDatasetFilters.remove_duplicates",
           "maze_dataset.dataset.maze_dataset:MazeDatasetFilters.remove_duplicates_fast",
           "maze_dataset.dataset.maze_dataset:MazeDatasetFilters.collect_generation_meta",
           "maze_dataset.dataset.maze_dataset:MazeDataset.custom_maze_filter",
           "maze_dataset.dataset.dataset:GPTDataset._apply_filters_from_config",
           "maze_dataset.dataset.dataset:_check_filter_equality"]
AMBIENT = dict(generators=False, solver=False, solved=False)


# ------------------------------------------------------------------ reference models
def percentile_linear(vals, p):
    v = sorted(float(x) for x in vals)
    n = len(v)
    if n == 1:
        return v[0]
    rank = (p / 100.0) * (n - 1)
    lo = int(math.floor(rank)); hi = min(lo + 1, n - 1)
    frac = rank - lo
    return v[lo] + (v[hi] - v[lo]) * frac


def ref_select(name, args, kwargs, data):
    """data: list of dicts(cl, sol).  returns list of kept indices"""
    a = list(args); kw = dict(kwargs)
    n = len(data)
    if name == "path_length":
        k = a[0] if a else kw["min_length"]
        return [i for i in range(n) if len(data[i]["sol"]) >= k]
    if name == "start_end_distance":
        k = a[0] if a else kw["min_distance"]
        return [i for i in range(n) if int(np.abs(np.asarray(data[i]["sol"][0]) - np.asarray(data[i]["sol"][-1])).sum()) >= k]
    if name == "cut_percentile_shortest":
        p = a[0] if a else kw.get("percentile", 10.0)
        lens = [len(d["sol"]) for d in data]
        cut = int(percentile_linear(lens, p))
        return [i for i in range(n) if lens[i] > cut]
    if name == "truncate_count":
        k = a[0] if a else kw["max_count"]
        return list(range(n))[:k]
    if name == "remove_duplicates_fast":
        seen = set(); out = []
        for i, d in enumerate(data):
            key = (d["cl"].shape, d["cl"].tobytes(), tuple(map(tuple, np.asarray(d["sol"]).tolist())))
            if key not in seen:
                seen.add(key); out.append(i)
        return out
    if name == "remove_duplicates":
        t_cl = a[0] if len(a) > 0 else kw.get("minimum_difference_connection_list", 1)
        t_sol = a[1] if len(a) > 1 else kw.get("minimum_difference_solution", 1)
        out = []
        for i in range(n):
            keep = True
            for j in range(i + 1, n):
                A, B = data[i], data[j]
                if t_cl is not None and A["cl"].shape == B["cl"].shape and int((A["cl"] != B["cl"]).sum()) <= t_cl:
                    keep = False; break
                sa, sb = np.asarray(A["sol"]), np.asarray(B["sol"])
                if t_sol is not None and sa.shape == sb.shape and int((sa != sb).sum()) <= t_sol:
                    keep = False; break
            if keep:
                out.append(i)
        return out
    raise KeyError(name)


def snapshot_data(ds):
    return [dict(cl=np.array(m.connection_list, copy=True), sol=np.array(m.solution, copy=True)) for m in ds.mazes]


def same_mazes(ctx, got_mazes, data, idxs, mech, case):
    if not ctx.check(len(got_mazes) == len(idxs), f"{mech}/wrong-count", f"kept {len(got_mazes)}, reference keeps {len(idxs)} (indices {idxs[:20]})", case):
        return False
    for pos, (m, i) in enumerate(zip(got_mazes, idxs)):
        d = data[i]
        if not (np.asarray(m.connection_list).shape == d["cl"].shape and np.array_equal(m.connection_list, d["cl"])
                and np.asarray(m.solution).shape == d["sol"].shape and np.array_equal(m.solution, d["sol"])):
            ctx.violation(f"{mech}/wrong-selection-or-order", f"position {pos} should be input maze {i}; reference keeps {idxs[:20]}", case)
            return False
    return True


# ------------------------------------------------------------------ dataset construction
def build(rng, g, n, mode):
    """harness-built dataset data with boundary structure; returns (list of (cl, path), boundary tags)"""
    tags = set()
    pool = [ref.random_structure(g, g, rng, f)[1] for f in ("tree", "cyc3", "serpentine", "perc8")]
    items = []
    cells = ref.all_cells(g, g)
    for t in range(n):
        cl = pool[int(rng.integers(len(pool)))].copy()
        gr = Graph(cl)
        if mode == "equal-lengths":
            # every solution has the same length L (walk along the serpentine)
            cl = ref.serpentine(g, g); gr = Graph(cl)
            L = min(g * g - 1, 3)
            order = gr.shortest_path((0, 0), (g - 1, (g - 1) if g % 2 else 0))
            st = int(rng.integers(0, len(order) - L))
            path = order[st: st + L + 1]
            tags.add("all-equal-lengths")
        else:
            s = cells[int(rng.integers(len(cells)))]
            comp = sorted(gr.component_of(s))
            e = comp[int(rng.integers(len(comp)))]
            path = gr.shortest_path(s, e, rng)
        items.append((cl, path))
    if mode == "dups" and n >= 2:
        # exact duplicates at first/last and adjacent positions
        items[-1] = (items[0][0].copy(), list(items[0][1])); tags.add("dup-first-last")
        if n >= 4:
            items[2] = (items[1][0].copy(), list(items[1][1])); tags.add("dup-adjacent")
    return items, tags


def near_dups(rng, g, n, thr):
    """pairs at connection-list distance exactly thr and thr+1 (same solution shape differences are large)"""
    tags = set()
    slots = ref.lattice_edge_slots(g, g)
    base = ref.random_spanning_tree(g, g, rng)
    items = []
    gr = Graph(base)
    pathA = gr.shortest_path((0, 0), (g - 1, g - 1))
    pathB = gr.shortest_path((0, g - 1), (g - 1, 0))
    pathC = gr.shortest_path((0, 0), (0, g - 1))
    for k, dist in enumerate([0, thr, thr + 1, 2 * thr + 3][:n]):
        cl = base.copy()
        for i in rng.permutation(len(slots))[:dist]:
            cl[slots[int(i)]] = not cl[slots[int(i)]]
        # solutions of pairwise different shapes or far apart so that only the connection list decides
        items.append((cl, [pathA, pathB + [pathB[-1]], pathC + [pathC[-1], pathC[-1]], pathA + [pathA[-1]] * 3][k]))
    rng.shuffle(items)
    tags.add("near-dup-at-thr"); tags.add("near-dup-at-thr+1")
    return items, tags


def make_ds(items, g, name, meta=False, int8_idx=()):
    """int8_idx: positions whose solution array is stored as int8 - the dtype mazes have after a trip through the compact
    on-disk formats; values, and therefore equality, are the same"""
    from maze_dataset import MazeDataset, MazeDatasetConfig
    from maze_dataset.maze.lattice_maze import SolvedMaze

    with warnings.catch_warnings():
        warnings.simplefilter("ignore")
        cfg = MazeDatasetConfig(name=name, grid_n=g, n_mazes=len(items))
        mazes = []
        for i, (cl, p) in enumerate(items):
            mt = dict(func_name="h", k=i % 3, flag=bool(i % 2)) if meta else None
            if i in int8_idx:
                mazes.append(SolvedMaze(connection_list=np.array(cl, dtype=bool), solution=np.array(p, dtype=np.int8), generation_meta=mt))
            else:
                mazes.append(lib.solved(cl, p, meta=mt))
        return MazeDataset(cfg, mazes)


def is_long(maze, min_len=3):
    return len(maze.solution) >= min_len


def starts_top(maze):
    return int(maze.start_pos[0]) == 0


def draw_filter(rng, data, thr_hint=None):
    lens = sorted({len(d["sol"]) for d in data}) or [1]
    dists = sorted({int(np.abs(np.asarray(d["sol"][0]) - np.asarray(d["sol"][-1])).sum()) for d in data}) or [0]
    name = ["path_length", "start_end_distance", "cut_percentile_shortest", "truncate_count", "remove_duplicates_fast", "remove_duplicates"][int(rng.integers(6))]
    as_kw = bool(rng.random() < 0.5)
    if name == "path_length":
        v = int([0, 1, *lens, lens[-1] + 1][int(rng.integers(len(lens) + 3))])
        return name, ([] if as_kw else [v]), (dict(min_length=v) if as_kw else {})
    if name == "start_end_distance":
        v = int([0, *dists, dists[-1] + 1][int(rng.integers(len(dists) + 2))])
        return name, ([] if as_kw else [v]), (dict(min_distance=v) if as_kw else {})
    if name == "cut_percentile_shortest":
        v = [0.0, 10.0, 25.0, 50.0, 75.0, 90.0, 100.0, float(np.round(rng.random() * 100, 2))][int(rng.integers(8))]
        r = rng.random()
        return name, ([] if (as_kw or r < 0.2) else [v]), (dict(percentile=v) if (as_kw and r >= 0.2) else {})
    if name == "truncate_count":
        v = int([0, 1, max(len(data) - 1, 0), len(data), len(data) + 3, int(rng.integers(0, len(data) + 2))][int(rng.integers(6))])
        return name, ([] if as_kw else [v]), (dict(max_count=v) if as_kw else {})
    if name == "remove_duplicates_fast":
        return name, [], {}
    t_cl = [None, 0, 1, thr_hint if thr_hint is not None else 2, 3][int(rng.integers(5))]
    t_sol = [None, 0, 1, 2][int(rng.integers(4))]
    if rng.random() < 0.2:
        return name, [], {}
    return name, [], dict(minimum_difference_connection_list=t_cl, minimum_difference_solution=t_sol)


def _meta_digest(m):
    gm = getattr(m, "generation_meta", None)
    if gm is None:
        return None
    out = []
    for k in sorted(gm, key=str):
        v = gm[k]
        if isinstance(v, set):
            v = sorted(map(tuple, v)) if v and not isinstance(next(iter(v)), (int, float, str)) else sorted(v)
        elif isinstance(v, np.ndarray):
            v = v.tolist()
        out.append((str(k), repr(v)[:300]))
    return tuple(out)


_LATER = [0]


def apply_and_check(ctx, ds, name, args, kwargs, case, tags):
    """apply one filter to ds, check everything, return the result dataset (or None)"""
    data = snapshot_data(ds)
    ids_before = [id(m) for m in ds.mazes]
    cfg_before = cfg_fields(ds.cfg)
    meta_before = [_meta_digest(m) for m in ds.mazes]
    collected_before = ds.generation_metadata_collected is None
    mech = f"C08/{name}"
    c2 = dict(case, filter=name, args=args, kwargs=kwargs)
    try:
        with warnings.catch_warnings():
            warnings.simplefilter("ignore")
            out = getattr(ds.filter_by, name)(*args, **kwargs)
    except Exception as e:  # noqa: BLE001
        import traceback
        ctx.violation(f"{mech}/exception/{type(e).__name__}", traceback.format_exc()[-1500:], c2)
        return None
    ctx.ev(); ctx.tally(f"c08:filter:{name}")
    exp = ref_select(name, args, kwargs, data)
    same_mazes(ctx, out.mazes, data, exp, mech, c2)
    if len(exp) == 0:
        ctx.tally("c08:empty-result")
    elif len(exp) == len(data):
        ctx.tally("c08:all-kept")
    else:
        ctx.tally("c08:proper-subset")
    if 0 < len(exp) < len(data) or tags:
        ctx.nontrivial(case.get("key"), name, args, sorted(kwargs.items(), key=repr), len(exp))
    for t in tags:
        ctx.tally(f"c08:boundary:{t}")
    # input undisturbed
    ctx.tally("c08:input-unchanged-checked")
    ctx.check(out is not ds, f"{mech}/returned-the-input-object", "", c2)
    ctx.check([id(m) for m in ds.mazes] == ids_before and len(ds) == len(data), f"{mech}/input-maze-list-changed", f"len {len(ds)} vs {len(data)}", c2)
    ok = all(np.array_equal(m.connection_list, d["cl"]) and np.array_equal(m.solution, d["sol"]) for m, d in zip(ds.mazes, data))
    ctx.check(ok, f"{mech}/input-maze-content-changed", "", c2)
    ctx.check([_meta_digest(m) for m in ds.mazes] == meta_before and (ds.generation_metadata_collected is None) == collected_before,
              f"{mech}/input-generation-metadata-changed", lambda: f"per-maze generation_meta present before: {sum(d is not None for d in meta_before)}, "
              f"after: {sum(_meta_digest(m) is not None for m in ds.mazes)}; collected metadata appeared: {collected_before and ds.generation_metadata_collected is not None}", c2)
    ctx.check(cfg_fields(ds.cfg) == cfg_before, f"{mech}/input-config-changed", lambda: f"before {cfg_before} after {cfg_fields(ds.cfg)}"[:600], c2)
    # provenance
    ctx.tally("c08:provenance-checked")
    got = cfg_fields(out.cfg)
    exp_filters = cfg_before["applied_filters"] + [dict(name=name, args=list(args), kwargs=dict(kwargs))]
    ctx.check(got["applied_filters"] == exp_filters, f"{mech}/provenance-wrong", lambda: f"got {got['applied_filters']} expected {exp_filters}"[:700], c2)
    ctx.check(got["n_mazes"] == len(out) == len(out.mazes), f"{mech}/n_mazes-not-updated", f"cfg.n_mazes={got['n_mazes']} len={len(out)}", c2)
    rest_b = {k: v for k, v in cfg_before.items() if k not in ("applied_filters", "n_mazes")}
    rest_a = {k: v for k, v in got.items() if k not in ("applied_filters", "n_mazes")}
    ctx.check(rest_a == rest_b, f"{mech}/other-config-fields-changed", lambda: f"{rest_b} -> {rest_a}"[:500], c2)
    # the result belongs to the caller: what the caller later does to it in place (collecting its generation metadata, writing it in
    # a compact format - both empty the per-maze metadata of the RESULT's mazes) may not reach back into the input
    _LATER[0] += 1
    if _LATER[0] % 3 == 0 and len(out) and name != "collect_generation_meta":
        try:
            with warnings.catch_warnings():
                warnings.simplefilter("ignore")
                if _LATER[0] % 2:
                    out.filter_by.collect_generation_meta()
                else:
                    out._serialize_minimal()
            did = True
        except Exception:  # noqa: BLE001
            did = False
            ctx.tally("c08:later-step-on-result-not-possible(not judged)")
        if did:
            ctx.tally("c08:input-rechecked-after-later-step-on-result")
            ok2 = all(np.array_equal(m.connection_list, d["cl"]) and np.array_equal(m.solution, d["sol"]) for m, d in zip(ds.mazes, data))
            ctx.check(ok2 and [id(m) for m in ds.mazes] == ids_before, f"{mech}/input-maze-content-changed", "after the result had its metadata collected / was serialized", c2)
            ctx.check([_meta_digest(m) for m in ds.mazes] == meta_before and (ds.generation_metadata_collected is None) == collected_before,
                      f"{mech}/input-generation-metadata-changed", lambda: f"after the RESULT had its metadata collected / was written in a compact format: per-maze generation_meta of the input present before: "
                      f"{sum(d is not None for d in meta_before)}, after: {sum(_meta_digest(m) is not None for m in ds.mazes)}", c2)
            ctx.check(cfg_fields(ds.cfg) == cfg_before, f"{mech}/input-config-changed", "after a later step on the result", c2)
    return out


def run(ctx):
    from maze_dataset import MazeDataset

    n_ds = 260 if ctx.quick else 5000
    for j in range(n_ds):
        if not ctx.mine(j):
            continue
        rng = ctx.sub_rng("ds", j)
        g = int(rng.integers(2, 7))
        mode = ["plain", "dups", "equal-lengths", "near", "plain"][j % 5]
        thr = int(rng.integers(0, 3))
        if mode == "near":
            if g < 3:
                g = 3
            items, tags = near_dups(rng, g, 4, thr)
        else:
            n = int(rng.integers(1, 13))
            items, tags = build(rng, g, n, mode)
        key = f"ds{j}"
        int8_idx = ()
        if mode == "dups" and j % 2 == 0 and len(items) >= 2:
            # the duplicate copies come from another storage dtype (fresh int64 mazes merged with the same mazes read back as int8)
            int8_idx = (len(items) - 1, 2)
            tags = set(tags) | {"dup-other-dtype"}
        case = dict(key=key, mode=mode, grid_n=g, n=len(items), int8_positions=list(int8_idx))
        _mk = make_ds
        make_ds_j = lambda items_, g_, key_, **kw: _mk(items_, g_, key_, int8_idx=int8_idx, **kw)  # noqa: E731
        # ---- single applications across boundary parameters -------------------
        for t in range(8 if ctx.quick else 12):
            ds = make_ds_j(items, g, key)
            if mode == "near" and t < 3:
                name, args, kwargs = "remove_duplicates", [], dict(minimum_difference_connection_list=thr, minimum_difference_solution=None)
            elif mode == "dups" and t < 2:
                name, args, kwargs = [("remove_duplicates_fast", [], {}), ("remove_duplicates", [], dict(minimum_difference_connection_list=0, minimum_difference_solution=0))][t]
            else:
                name, args, kwargs = draw_filter(rng, snapshot_data(ds), thr)
            apply_and_check(ctx, ds, name, args, kwargs, case, tags if t < 3 else set())
        # ---- custom predicates --------------------------------------------------
        ds = make_ds_j(items, g, key)
        data = snapshot_data(ds)
        cfg_before = cfg_fields(ds.cfg)
        for pred, kw, expf in ((is_long, dict(min_len=int(rng.integers(1, 6))), None), (starts_top, {}, None)):
            with ctx.guard("C08/custom_maze_filter", case):
                out = ds.custom_maze_filter(pred, **kw)
                ctx.ev(); ctx.tally("c08:filter:custom_maze_filter")
                exp = [i for i, d in enumerate(data) if (len(d["sol"]) >= kw["min_len"] if pred is is_long else int(d["sol"][0][0]) == 0)]
                same_mazes(ctx, out.mazes, data, exp, "C08/custom_maze_filter", dict(case, pred=pred.__name__, kw=kw))
                ctx.check(cfg_fields(ds.cfg) == cfg_before and len(ds) == len(data), "C08/custom_maze_filter/input-changed", "", case)
                af = out.cfg.applied_filters
                ctx.check(len(af) == len(cfg_before["applied_filters"]) + 1 and af[-1]["name"] == f"__custom__:{pred.__name__}" and dict(af[-1]["kwargs"]) == kw,
                          "C08/custom_maze_filter/provenance-wrong", f"{af}", case)
                ctx.check(out.cfg.n_mazes == len(out), "C08/custom_maze_filter/n_mazes-not-updated", "", case)
                # a second and a third custom predicate on that result (the library may refuse the chained call - then only the
                # undisturbed input is judged): whatever is returned records exactly the predicates applied to it, and the result
                # it was derived from keeps its own record
                rec_out = [dict(f) for f in out.cfg.applied_filters]
                for pred2, kw2 in ((starts_top, {}), (is_long, dict(min_len=2))):
                    try:
                        with warnings.catch_warnings():
                            warnings.simplefilter("ignore")
                            out2 = out.custom_maze_filter(pred2, **kw2)
                    except Exception:  # noqa: BLE001
                        ctx.tally("c08:chained-custom-filter-refused(not judged)")
                        out2 = None
                    ctx.tally("c08:chained-custom-filter")
                    now = [dict(f) for f in out.cfg.applied_filters]
                    ctx.check([(f.get("name"), dict(f.get("kwargs", {}))) for f in now] == [(f.get("name"), dict(f.get("kwargs", {}))) for f in rec_out],
                              "C08/custom_maze_filter/input-changed", lambda: f"a chained custom filter changed the record of the dataset it was applied to: {rec_out} -> {now}"[:500], case)
                    if out2 is not None:
                        names2 = [f.get("name") for f in out2.cfg.applied_filters]
                        ctx.check(names2 == [f.get("name") for f in rec_out] + [f"__custom__:{pred2.__name__}"], "C08/custom_maze_filter/provenance-wrong", f"{names2}", case)
        # ---- sequences -------------------------------------------------------------
        ds = make_ds_j(items, g, key)
        cur = ds
        seq = []
        for _ in range(int(rng.integers(1, 6))):
            name, args, kwargs = draw_filter(rng, snapshot_data(cur), thr)
            if len(cur) == 0 and name == "cut_percentile_shortest":
                continue  # percentile of an empty list is undefined
            seq.append((name, args, kwargs))
            nxt = apply_and_check(ctx, cur, name, args, kwargs, dict(case, sequence=[s[0] for s in seq]), set())
            if nxt is None:
                break
            cur = nxt
        ctx.tally("c08:sequences")
        if j < 3:
            ctx.sample(dict(case=case, sequence=[(s[0], s[1], s[2]) for s in seq], lengths=[len(p) for _c, p in items], result_len=len(cur)))
    _metadata(ctx, 64 if ctx.quick else 600)
    _from_config(ctx, 48 if ctx.quick else 600)
    _generated_big(ctx, 16 if ctx.quick else 160)
    _far_endpoints_int8(ctx)
    _custom_metadata(ctx, 24 if ctx.quick else 240)


def _far_endpoints_int8(ctx):
    """large grids (65..120 a side) whose mazes store their coordinates as int8 (what the compact on-disk format hands back) and have
    endpoints 128 or more steps apart: distance / length filters must compare true distances"""
    from maze_dataset import MazeDataset, MazeDatasetConfig
    from maze_dataset.maze.lattice_maze import SolvedMaze

    for j, g in enumerate([72, 100, 120, 65]):
        if not ctx.mine(j):
            continue
        rng = ctx.sub_rng("far", j)
        cl = ref.full_cl(g, g)
        items = []
        for t in range(8):
            s_ = (int(rng.integers(0, 3)), int(rng.integers(0, 3))) if t % 2 == 0 else (int(rng.integers(g)), int(rng.integers(g)))
            e_ = (g - 1 - int(rng.integers(0, 3)), g - 1 - int(rng.integers(0, 3))) if t % 2 == 0 else (int(rng.integers(g)), int(rng.integers(g)))
            # an L-shaped shortest route on the open grid
            path = [(r, s_[1]) for r in range(s_[0], e_[0], 1 if e_[0] >= s_[0] else -1)] + [(e_[0], c) for c in range(s_[1], e_[1], 1 if e_[1] >= s_[1] else -1)] + [e_]
            items.append(path)
        with warnings.catch_warnings():
            warnings.simplefilter("ignore")
            def mk():
                return MazeDataset(MazeDatasetConfig(name=f"far{j}", grid_n=g, n_mazes=len(items)),
                                   [SolvedMaze(connection_list=cl.copy(), solution=np.array(p, dtype=np.int8)) for p in items])
            case = dict(key=f"far{j}", mode="far-endpoints-int8", grid_n=g)
            ctx.tally("c08:far-endpoints-int8")
            for name, args, kwargs in (("start_end_distance", [1], {}), ("start_end_distance", [128], {}), ("start_end_distance", [], dict(min_distance=g)),
                                       ("path_length", [129], {}), ("path_length", [2], {}), ("cut_percentile_shortest", [50.0], {})):
                apply_and_check(ctx, mk(), name, args, kwargs, case, set())


def _custom_metadata(ctx, n):
    """generation metadata as a custom generator may attach it: scalars, coordinates, and coordinate lists in which a cell occurs
    more than once inside one maze (a walk trace); collect_generation_meta must count every occurrence"""
    from maze_dataset import MazeDataset, MazeDatasetConfig

    for j in range(n):
        if not ctx.mine(j):
            continue
        rng = ctx.sub_rng("custmeta", j)
        g = int(rng.integers(2, 6))
        k = int(rng.integers(1, 7))
        items, metas = [], []
        for t in range(k):
            cl = ref.random_spanning_tree(g, g, rng)
            gr = Graph(cl)
            path = gr.shortest_path((0, 0), (g - 1, g - 1))
            walk = [(0, 0)]
            for _ in range(int(rng.integers(3, 14))):
                nb = gr.adj[walk[-1]]
                walk.append(nb[int(rng.integers(len(nb)))])          # a random walk: revisits cells
            meta = dict(func_name="custom", grid_shape=np.array([g, g]), start_coord=np.array(walk[0]), flag=bool(t % 2), level=int(t % 3),
                        walk_trace=np.array(walk) if t % 2 else [tuple(c) for c in walk], fully_connected=True)
            items.append((cl, path)); metas.append(meta)
        with warnings.catch_warnings():
            warnings.simplefilter("ignore")
            for inplace in (False, True):
                ds = MazeDataset(MazeDatasetConfig(name=f"cm{j}", grid_n=g, n_mazes=k),
                                 [lib.solved(cl, p, meta={kk: (vv.copy() if isinstance(vv, np.ndarray) else (list(vv) if isinstance(vv, list) else vv)) for kk, vv in m.items()})
                                  for (cl, p), m in zip(items, metas)])
                exp = _ref_collect(metas)
                case = dict(key=f"cm{j}", mode="custom-metadata", inplace=inplace, grid_n=g, n=k)
                with ctx.guard("C08/collect_generation_meta", case):
                    out = ds.filter_by.collect_generation_meta(inplace=inplace)
                    ctx.ev(); ctx.tally("c08:filter:collect_generation_meta"); ctx.tally("c08:custom-metadata")
                    got = out.generation_metadata_collected
                    norm = lambda d: {str(kk): {str(a): int(b) for a, b in v.items()} for kk, v in d.items()}  # noqa: E731
                    ctx.check(got is not None and norm(got) == norm(exp), "C08/collect_generation_meta/counts-wrong",
                              lambda: "; ".join(f"{kk}: got {str(norm(got).get(kk))[:150]} expected {str(v)[:150]}" for kk, v in norm(exp).items() if norm(got).get(kk) != v)[:800], case)


def _generated_big(ctx, n):
    """freshly generated datasets (every maze still carries its generation_meta) of 100..140 mazes - the size from which the
    library switches to its compact serialization - put through filters and filter sequences; hand application vs from_config"""
    from maze_dataset import MazeDataset

    for j in range(n):
        if not ctx.mine(j):
            continue
        rng = ctx.sub_rng("genbig", j)
        spec = dict(key=f"gb{j}", name=f"c08gb-{j}", gen=["gen_dfs", "gen_dfs_percolation", "gen_dfs"][j % 3], kwargs=[{}, dict(p=0.3), dict(do_forks=False)][j % 3],
                    grid_n=int(rng.integers(3, 6)), n_mazes=int([100, 101, 120, 140][j % 4]), seed=int(rng.integers(1 << 30)), filters=[])
        case = dict(key=spec["key"], mode="generated-big", spec=spec)
        with warnings.catch_warnings():
            warnings.simplefilter("ignore")
            try:
                ds = MazeDataset.generate(c04_child.make_cfg(spec))
            except ValueError:
                continue
        ctx.tally("c08:generated-big")
        cur = ds
        seq = []
        for step in range(3):
            data = snapshot_data(cur)
            lens = sorted({len(d["sol"]) for d in data}) or [1]
            name, args, kwargs = [("path_length", [int(lens[len(lens) // 4])], {}), ("truncate_count", [], dict(max_count=max(100, len(cur) - 3))),
                                  ("start_end_distance", [1], {}), ("remove_duplicates_fast", [], {}),
                                  ("cut_percentile_shortest", [5.0], {})][int(rng.integers(5))]
            if len(cur) == 0:
                break
            nxt = apply_and_check(ctx, cur, name, args, kwargs, dict(case, sequence=[x[0] for x in seq] + [name]), set())
            seq.append((name, args, kwargs))
            if nxt is None:
                break
            cur = nxt
        # the same filters listed in a configuration
        spec2 = dict(spec, filters=[dict(name=nm, args=a, kwargs=k) for nm, a, k in seq])
        with ctx.guard("C08/from_config", dict(case, filters=spec2["filters"])), warnings.catch_warnings():
            warnings.simplefilter("ignore")
            got = MazeDataset.from_config(c04_child.make_cfg(spec2), load_local=False, save_local=False, do_download=False)
            ctx.ev(); ctx.tally("c08:from_config-big")
            same_mazes(ctx, got.mazes, snapshot_data(cur), list(range(len(cur))), "C08/from_config", dict(case, filters=spec2["filters"]))


def _ref_collect(mazes_meta, lattice_dim=2):
    from collections import Counter, defaultdict

    out = defaultdict(Counter)
    for meta in mazes_meta:
        for k, v in meta.items():
            if isinstance(v, (bool, int, float, str)):
                out[k][v] += 1
            elif isinstance(v, set):
                out[k].update(v)
            elif isinstance(v, (list, np.ndarray)):
                a = np.array(v)
                if a.ndim == 1 and a.shape[0] == lattice_dim:
                    out[k][tuple(a.tolist())] += 1
                elif a.ndim == 2 and a.shape[1] == lattice_dim:
                    out[k].update(tuple(r) for r in a.tolist())
    return {k: dict(v) for k, v in out.items()}


def _metadata(ctx, n):
    from maze_dataset import MazeDataset

    specs = [dict(gen="gen_dfs", kwargs={}), dict(gen="gen_dfs", kwargs=dict(accessible_cells=6)), dict(gen="gen_percolation", kwargs=dict(p=0.9)),
             dict(gen="gen_dfs_percolation", kwargs=dict(p=0.3)), dict(gen="gen_wilson", kwargs={}), dict(gen="gen_prim", kwargs=dict(do_forks=False))]
    for j in range(n):
        if not ctx.mine(j):
            continue
        rng = ctx.sub_rng("meta", j)
        spec = dict(specs[j % len(specs)], key=f"m{j}", grid_n=int(rng.integers(2, 7)), n_mazes=int(rng.integers(1, 9)), seed=int(rng.integers(1 << 30)))
        case = dict(spec=spec)
        with warnings.catch_warnings():
            warnings.simplefilter("ignore")
            try:
                ds = MazeDataset.generate(c04_child.make_cfg(spec))
            except ValueError:
                continue
            metas = []
            for m in ds.mazes:
                mm = {}
                for k, v in m.generation_meta.items():
                    mm[k] = set(v) if isinstance(v, set) else (np.array(v, copy=True) if isinstance(v, np.ndarray) else v)
                metas.append(mm)
            exp = _ref_collect(metas)
            data = snapshot_data(ds)
            for inplace in (False, True):
                with ctx.guard("C08/collect_generation_meta", case):
                    src = ds if inplace else MazeDataset.generate(c04_child.make_cfg(spec))
                    cfg_before = cfg_fields(src.cfg)
                    out = src.filter_by.collect_generation_meta(inplace=inplace) if not inplace or j % 2 else src.filter_by.collect_generation_meta()
                    ctx.ev(); ctx.tally("c08:filter:collect_generation_meta")
                    got = out.generation_metadata_collected
                    norm = lambda d: {str(k): {str(kk): int(vv) for kk, vv in v.items()} for k, v in d.items()}  # noqa: E731
                    ctx.check(got is not None and norm(got) == norm(exp), "C08/collect_generation_meta/counts-wrong",
                              lambda: "; ".join(f"{k}: got {str(norm(got).get(k))[:120]} expected {str(v)[:120]}" for k, v in norm(exp).items() if norm(got).get(k) != v)[:800], case)
                    same_mazes(ctx, out.mazes, data, list(range(len(data))), "C08/collect_generation_meta", case)
                    af = cfg_fields(out.cfg)["applied_filters"]
                    ctx.check(af[:-1] == cfg_before["applied_filters"] and af[-1]["name"] == "collect_generation_meta", "C08/collect_generation_meta/provenance-wrong", f"{af}", case)
                    if not inplace:
                        ctx.check(src.generation_metadata_collected is None and cfg_fields(src.cfg) == cfg_before and
                                  all(m.generation_meta is not None for m in src.mazes), "C08/collect_generation_meta/not-inplace-but-input-changed", "", case)
                    ctx.nontrivial("meta", j, inplace)


def _from_config(ctx, n):
    from maze_dataset import MazeDataset

    for j in range(n):
        if not ctx.mine(j):
            continue
        rng = ctx.sub_rng("fc", j)
        spec = dict(key=f"fc{j}", name=f"c08fc-{j}", gen=["gen_dfs", "gen_dfs_percolation", "gen_wilson"][j % 3], kwargs=[{}, dict(p=0.3), {}][j % 3],
                    grid_n=int(rng.integers(3, 7)), n_mazes=int(rng.integers(4, 14)), seed=int(rng.integers(1 << 30)), filters=[])
        with warnings.catch_warnings():
            warnings.simplefilter("ignore")
            base = MazeDataset.generate(c04_child.make_cfg(spec, with_filters=False))
            data = snapshot_data(base)
            cur = data; idx = list(range(len(data)))
            filters = []
            for _ in range(int(rng.integers(1, 5))):
                if not cur:
                    break
                name, args, kwargs = draw_filter(rng, cur, 1)
                filters.append(dict(name=name, args=list(args), kwargs=dict(kwargs)))
                keep = ref_select(name, args, kwargs, cur)
                idx = [idx[i] for i in keep]; cur = [cur[i] for i in keep]
            spec["filters"] = filters
            case = dict(spec=spec)
            with ctx.guard("C08/from_config", case):
                got = MazeDataset.from_config(c04_child.make_cfg(spec, with_filters=True), load_local=False, save_local=False, do_download=False)
                ctx.ev(); ctx.tally("c08:from_config")
                same_mazes(ctx, got.mazes, data, idx, "C08/from_config", case)
                af = cfg_fields(got.cfg)["applied_filters"]
                ctx.check(af == [dict(name=f["name"], args=f["args"], kwargs=f["kwargs"]) for f in filters], "C08/from_config/provenance-wrong", f"{af} vs {filters}"[:600], case)
                ctx.check(got.cfg.n_mazes == len(got), "C08/from_config/n_mazes-not-updated", "", case)
                ctx.nontrivial("fc", j)
