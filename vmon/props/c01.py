"""C01 — generators emit well-formed lattice graphs; DFS/Wilson emit spanning trees."""

from __future__ import annotations

import numpy as np

from .. import genwork, oracles
from ..core import call_watchdog

LEVEL = "exploration"
TECHNIQUE = "runtime monitoring: postcondition monitor on every gen_* return (sys.monitoring, also inside the repository's own tests and pool workers) judged by an adjacency-set reference model (shape/dtype/boundary/spanning-tree oracle) over a generated kwargs x shape x RNG-state workload"
RULE = ("direct calls of GENERATORS_MAP[name](np.array(shape), **kwargs) over all shapes r,c in 1..6 plus random shapes, "
        "kwargs drawn from the documented grid, entered with seeded and with already-consumed global RNG streams; every return "
        "is judged by an adjacency-set reference model (dtype/shape, boundary rule, spanning tree for default dfs/prim/wilson, "
        "exact edge counts for p in {0,1}); plus the ambient generator monitor on dataset generation traffic. "
        "non-trivial & distinct = distinct (generator, shape, kwargs, returned connection_list) with r*c >= 2")
ASSUMPTIONS = ["numpy / CPython behave as documented", "grid shapes are passed as numpy arrays (what the dataset layer passes)",
               "lattice_dim=2 only"]
NSHARDS = {"quick": 16, "thorough": 16}
THRESHOLDS = {
    "quick": {"repotests:ambient:gen:gen_dfs?repotests:runs": 50, "c01:gen_dfs": 200, "c01:gen_prim": 200, "c01:gen_wilson": 200, "c01:gen_percolation": 200,
              "c01:gen_dfs_percolation": 200, "c01:oblong": 1, "c01:one-by-n": 1, "c01:p0": 1, "c01:p1": 1,
              "c01:spanning-checked:dfs": 100, "c01:spanning-checked:wilson": 100, "c01:consumed-stream": 50,
              "hits:gen_dfs": 1, "hits:gen_wilson": 1, "hits:gen_percolation": 1, "hits:gen_dfs_percolation": 1,
              "ambient:gen:gen_dfs": 1},
}
THRESHOLDS["thorough"] = {**THRESHOLDS["quick"], "c01:gen_dfs": 5000, "c01:gen_wilson": 5000}
ANCHORS = [
    "maze_dataset.generation.generators:LatticeMazeGenerators.gen_dfs",
    "maze_dataset.generation.generators:LatticeMazeGenerators.gen_wilson",
    "maze_dataset.generation.generators:LatticeMazeGenerators.gen_percolation",
    "maze_dataset.generation.generators:LatticeMazeGenerators.gen_dfs_percolation",
    "maze_dataset.generation.generators:LatticeMazeGenerators.gen_prim",
    "maze_dataset.maze.lattice_maze:_fill_edges_with_walls",
]
# ambient monitors are on as everywhere; their C01 findings are owned by this check
GENS = ("gen_dfs", "gen_prim", "gen_wilson", "gen_percolation", "gen_dfs_percolation")


def run(ctx):
    if ctx.shard == ctx.nshards - 1:
        from ..repotests import run_under_monitors

        run_under_monitors(ctx)
    from maze_dataset.generation.generators import GENERATORS_MAP, LatticeMazeGenerators

    shapes = genwork.shapes(ctx, max_exh=6, n_random=30 if ctx.quick else 200, max_random=20 if ctx.quick else 40)
    reps = 8 if ctx.quick else 40
    i = 0
    for rep in range(reps):
        for (R, C) in shapes:
            for gen in GENS:
                for variant in range(2):
                    i += 1
                    if not ctx.mine(i):
                        continue
                    if R * C > 400 and gen == "gen_wilson":
                        continue  # loop-erased walks on big grids are slow; covered up to 20x20
                    rng = ctx.sub_rng("case", rep, R, C, gen, variant)
                    kw = {} if variant == 0 else genwork.kwargs_for(gen, R, C, rng)
                    cseed = ctx.case_seed("rng", rep, R, C, gen, variant)
                    consumed = int(rng.integers(1, 50)) if rng.random() < 0.25 else 0
                    via_map = bool(rng.random() < 0.5)
                    case = dict(gen=gen, shape=(R, C), kwargs=kw, rng_seed=cseed, consumed=consumed, via_map=via_map)
                    genwork.seed_library_rngs(cseed, consumed)
                    fn = GENERATORS_MAP[gen] if via_map else getattr(LatticeMazeGenerators, gen)
                    with ctx.guard(f"C01/{gen}/call", case), call_watchdog(ctx, 120, f"C01/{gen} {R}x{C}"):
                        maze = fn(np.array([R, C]), **kw)
                        # (if the watchdog fires the block is left here and the case is reported as inconclusive)
                        ctx.ev()
                        oracles.check_c01(ctx, gen, (R, C), kw, maze, case)
                        if consumed:
                            ctx.tally("c01:consumed-stream")
                        if R != C:
                            ctx.tally("c01:oblong")
                        if min(R, C) == 1 and max(R, C) > 1:
                            ctx.tally("c01:one-by-n")
                        if R * C >= 2:
                            ctx.nontrivial(gen, R, C, sorted(kw.items(), key=repr), maze.connection_list)
                        if i % 997 == 0 or (ctx.shard == 0 and len(ctx.samples) < 3):
                            ctx.sample(dict(case=case, n_connections=int(maze.connection_list.sum())))
    # library-internal traffic: a few datasets (ambient monitor judges every generator call they make)
    _dataset_traffic(ctx)


def _dataset_traffic(ctx):
    from maze_dataset import MazeDataset, MazeDatasetConfig
    from maze_dataset.generation.generators import GENERATORS_MAP

    specs = [("gen_dfs", {}), ("gen_wilson", {}), ("gen_percolation", {"p": 0.6}), ("gen_dfs_percolation", {"p": 0.2}),
             ("gen_dfs", {"accessible_cells": 5, "do_forks": False})]
    for j, (gen, kw) in enumerate(specs):
        if not ctx.mine(j):
            continue
        with ctx.guard("C01/dataset-traffic", dict(gen=gen, kw=kw), allowed=(ValueError,)):
            cfg = MazeDatasetConfig(name=f"c01-{j}", grid_n=4 + j % 3, n_mazes=6, maze_ctor=GENERATORS_MAP[gen],
                                    maze_ctor_kwargs=kw, seed=ctx.case_seed("ds", j) % 10000)
            MazeDataset.generate(cfg, gen_parallel=False)
            ctx.tally("c01:dataset-traffic")
