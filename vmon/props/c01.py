"""C01 — generators emit well-formed lattice graphs; DFS/Wilson emit spanning trees."""

from __future__ import annotations

import numpy as np

from .. import genwork, oracles
from ..core import call_watchdog

LEVEL = "exploration"
TECHNIQUE = "runtime monitoring: postcondition monitor on every gen_* return (sys.monitoring, also inside the repository's own tests and pool workers) judged by an adjacency-set reference model (shape/dtype/boundary/spanning-tree oracle) over a generated kwargs x shape x RNG-state workload"
RULE = ("direct calls of GENERATORS_MAP[name](np.array(shape), **kwargs) over all shapes r,c in 1..6 plus random shapes, "
        "kwargs drawn from the documented grid, entered with seeded and with already-consumed global RNG streams; every return "
        "is judged by an adjacency-set reference model (dtype/shape, boundary rule, spanning tree for default dfs/prim/wilson, "
        "exact edge counts for p in {0,1}); plus the ambient generator monitor on dataset generation traffic. "
        "non-trivial & distinct = distinct (generator, shape, kwargs, returned connection_list) with r*c >= 2")
ASSUMPTIONS = ["numpy / CPython behave as documented", "grid shapes are passed as numpy arrays (what the dataset layer passes)",
               "lattice_dim=2 only"]
NSHARDS = {"quick": 16, "thorough": 16}
THRESHOLDS = {
    "quick": {"repotests:ambient:gen:gen_dfs?repotests:runs": 50, "c01:percolation-volume": 150, "c01:returned-maze-overwritten-by-caller": 1000, "c01:history:neighbour-arrays-rearranged-by-caller": 5000, "c01:percolation-volume:side>127": 60, "c01:extreme-draws": 40, "c01:shape-dtype:int8": 300, "c01:shape-dtype:uint8": 300, "c01:shape-dtype:uint32": 300, "c01:wilson-unsigned-shape": 100, "c01:gen_dfs": 200, "c01:gen_prim": 200, "c01:gen_wilson": 200, "c01:gen_percolation": 200,
              "c01:gen_dfs_percolation": 200, "c01:oblong": 1, "c01:one-by-n": 1, "c01:p0": 1, "c01:p1": 1,
              "c01:spanning-checked:dfs": 100, "c01:spanning-checked:wilson": 100, "c01:consumed-stream": 50,
              "hits:gen_dfs": 1, "hits:gen_wilson": 1, "hits:gen_percolation": 1, "hits:gen_dfs_percolation": 1,
              "ambient:gen:gen_dfs": 1},
}
THRESHOLDS["thorough"] = {**THRESHOLDS["quick"], "c01:gen_dfs": 5000, "c01:gen_wilson": 5000}
ANCHORS = [
    "maze_dataset.generation.generators:LatticeMazeGenerators.gen_dfs",
    "maze_dataset.generation.generators:LatticeMazeGenerators.gen_wilson",
    "maze_dataset.generation.generators:LatticeMazeGenerators.gen_percolation",
    "maze_dataset.generation.generators:LatticeMazeGenerators.gen_dfs_percolation",
    "maze_dataset.generation.generators:LatticeMazeGenerators.gen_prim",
    "maze_dataset.maze.lattice_maze:_fill_edges_with_walls",
]
# ambient monitors are on as everywhere; their C01 findings are owned by this check
GENS = ("gen_dfs", "gen_prim", "gen_wilson", "gen_percolation", "gen_dfs_percolation")


def run(ctx):
    if ctx.shard == ctx.nshards - 1:
        from ..repotests import run_under_monitors

        run_under_monitors(ctx)
    from maze_dataset.generation.generators import GENERATORS_MAP, LatticeMazeGenerators

    if ctx.shard % 2 == 0:
        _neighbour_helper_first(ctx)

    shapes = genwork.shapes(ctx, max_exh=6, n_random=30 if ctx.quick else 200, max_random=20 if ctx.quick else 40)
    reps = 8 if ctx.quick else 40
    i = 0
    for rep in range(reps):
        for (R, C) in shapes:
            for gen in GENS:
                for variant in range(2):
                    i += 1
                    if not ctx.mine(i):
                        continue
                    if R * C > 400 and gen == "gen_wilson":
                        continue  # loop-erased walks on big grids are slow; covered up to 20x20
                    rng = ctx.sub_rng("case", rep, R, C, gen, variant)
                    kw = {} if variant == 0 else genwork.kwargs_for(gen, R, C, rng)
                    cseed = ctx.case_seed("rng", rep, R, C, gen, variant)
                    consumed = int(rng.integers(1, 50)) if rng.random() < 0.25 else 0
                    via_map = bool(rng.random() < 0.5)
                    case = dict(gen=gen, shape=(R, C), kwargs=kw, rng_seed=cseed, consumed=consumed, via_map=via_map)
                    genwork.seed_library_rngs(cseed, consumed)
                    fn = GENERATORS_MAP[gen] if via_map else getattr(LatticeMazeGenerators, gen)
                    # the grid shape as an array of any integer dtype that holds it (the dataset layer passes int32/int64; int8 and
                    # uint8 are what coordinate arrays elsewhere in the library use)
                    dts = [np.int64, np.int32, np.int16, np.uint16, np.uint32, np.uint64] + ([np.int8] if max(R, C) < 128 else []) + ([np.uint8] if max(R, C) < 256 else [])
                    # (drawn per case: a running index would pair each generator with the same dtype for ever)
                    dt = dts[int(rng.integers(len(dts)))]
                    case["shape_dtype"] = np.dtype(dt).name
                    ctx.tally(f"c01:shape-dtype:{np.dtype(dt).name}")
                    if gen == "gen_wilson" and np.dtype(dt).kind == "u":
                        ctx.tally("c01:wilson-unsigned-shape")
                    with ctx.guard(f"C01/{gen}/call", case), call_watchdog(ctx, 120, f"C01/{gen} {R}x{C}"):
                        maze = fn(np.array([R, C], dtype=dt), **kw)
                        # (if the watchdog fires the block is left here and the case is reported as inconclusive)
                        ctx.ev()
                        oracles.check_c01(ctx, gen, (R, C), kw, maze, case)
                        if consumed:
                            ctx.tally("c01:consumed-stream")
                        if R != C:
                            ctx.tally("c01:oblong")
                        if min(R, C) == 1 and max(R, C) > 1:
                            ctx.tally("c01:one-by-n")
                        if R * C >= 2:
                            ctx.nontrivial(gen, R, C, sorted(kw.items(), key=repr), maze.connection_list)
                        if i % 997 == 0 or (ctx.shard == 0 and len(ctx.samples) < 3):
                            ctx.sample(dict(case=case, n_connections=int(maze.connection_list.sum())))
                        # the maze handed back belongs to the caller: its connections are edited in place (all walls opened / closed);
                        # the mazes generated afterwards are judged as usual
                        if i % 2 == 0:
                            try:
                                maze.connection_list[...] = (i % 4 == 0)
                                ctx.tally("c01:returned-maze-overwritten-by-caller")
                            except Exception:  # noqa: BLE001
                                pass
    _percolation_volume(ctx)
    _percolation_extreme_draws(ctx)
    # library-internal traffic: a few datasets (ambient monitor judges every generator call they make)
    _dataset_traffic(ctx)


def _percolation_extreme_draws(ctx):
    """'for every RNG state the generator can be entered with': the uniform draws a percolation generator takes from numpy's
    global RNG are replaced by legal but extreme values - 0.0 (the smallest possible draw) for p=0, the largest double below
    1.0 for p=1, and a mixture of both - all of them values the real generator can return.  p=0 must still give no connection
    and p=1 every lattice edge.  If the generator does not draw through the wrapped functions nothing is injected (tallied)."""
    from maze_dataset.generation.generators import LatticeMazeGenerators

    top = float(np.nextafter(1.0, 0.0))
    names = ["rand", "random", "random_sample", "uniform"]
    real = {n: getattr(np.random, n) for n in names}
    state = dict(mode=None, hits=0)

    def wrap(name):
        def f(*a, **kw):
            r = real[name](*a, **kw)
            if state["mode"] is None or not isinstance(r, np.ndarray) or r.dtype.kind != "f":
                return r
            state["hits"] += 1
            if state["mode"] == "top":
                r[...] = top
            elif state["mode"] == "zero":
                r[...] = 0.0
            else:
                flat = r.reshape(-1)
                flat[::2] = top
                flat[1::2] = 0.0
            return r
        return f

    cases = []
    for k, (R, C) in enumerate([(1, 1), (1, 5), (4, 1), (2, 2), (3, 4), (5, 5), (8, 3), (12, 12)]):
        for gen in ("gen_percolation", "gen_dfs_percolation"):
            for p, mode in ((1, "top"), (1.0, "top"), (0, "zero"), (0.0, "zero"), (1.0, "mix"), (0.0, "mix")):
                cases.append((R, C, gen, p, mode))
    for j, (R, C, gen, p, mode) in enumerate(cases):
        if not ctx.mine(j):
            continue
        case = dict(gen=gen, shape=(R, C), kwargs=dict(p=p), injected_draws=mode)
        for n in names:
            setattr(np.random, n, wrap(n))
        state["mode"], state["hits"] = mode, 0
        try:
            with ctx.guard(f"C01/{gen}/call", case):
                genwork.seed_library_rngs(j)
                maze = getattr(LatticeMazeGenerators, gen)(np.array([R, C]), p=p)
                state["mode"] = None
                ctx.ev(); ctx.tally("c01:extreme-draws")
                ctx.tally("c01:extreme-draws:injected" if state["hits"] else "c01:extreme-draws:generator-did-not-draw-through-the-wrapped-functions")
                oracles.check_c01(ctx, gen, (R, C), dict(p=p), maze, case)
        finally:
            state["mode"] = None
            for n in names:
                setattr(np.random, n, real[n])


def _percolation_volume(ctx):
    """p=0 and p=1 are exact statements about *every* lattice edge: larger grids in some volume, judged with array arithmetic only.
    (The generator costs ~0.1 ms per cell - its component search is a Python loop - so per-edge events rarer than about 1e-6 are
    out of reach of volume; the extreme-draw workload below reaches them directly.)"""
    from maze_dataset.generation.generators import LatticeMazeGenerators

    n = 160 if ctx.quick else 1600
    for j in range(n):
        if not ctx.mine(j):
            continue
        # (thin grids with one side past 127 / 255 / 256 / 512: whatever the generator does per row or per block of rows)
        R, C = [(40, 40), (20, 90), (64, 16), (33, 33), (257, 3), (3, 257), (300, 4), (513, 2), (2, 600), (1000, 2), (129, 5), (5, 255)][j % 12] if ctx.quick or j % 40 else (300, 300)
        p = [1, 1.0, 0, 0.0, 1.0, 1.0][j % 6]
        seed = ctx.case_seed("vol", j) % (2**32)
        np.random.seed(seed)
        gname = "gen_dfs_percolation" if (j // 12) % 3 == 2 else "gen_percolation"
        case = dict(gen=gname, shape=(R, C), kwargs=dict(p=p), numpy_seed=seed)
        if max(R, C) > 127:
            ctx.tally("c01:percolation-volume:side>127")
        with ctx.guard("C01/gen_percolation/call", case):
            cl = getattr(LatticeMazeGenerators, gname)(np.array([R, C]), p=p).connection_list
            ctx.ev(); ctx.tally("c01:percolation-volume"); ctx.tally("c01:percolation-volume-edge-draws", 2 * R * C)
            ok_shape = isinstance(cl, np.ndarray) and cl.dtype == np.bool_ and cl.shape == (2, R, C)
            if not ctx.check(ok_shape, "C01/gen_percolation/shape", f"{getattr(cl, 'shape', None)} {getattr(cl, 'dtype', None)}", case):
                continue
            ctx.check(not cl[0, -1, :].any() and not cl[1, :, -1].any(), "C01/gen_percolation/edge-leaves-grid", "", case)
            n_conn = int(cl.sum())
            lattice = R * (C - 1) + C * (R - 1)
            if p == 0 and gname == "gen_dfs_percolation":
                # (percolation adds nothing at p=0: what is left is the depth-first spanning tree)
                ctx.check(n_conn == R * C - 1, "C01/gen_dfs_percolation/p0-not-the-spanning-tree", f"{n_conn} connections on {R}x{C}, a spanning tree has {R * C - 1}", case)
            elif p == 0:
                ctx.check(n_conn == 0, "C01/gen_percolation/p0-has-connection", f"{n_conn} connections on {R}x{C}", case)
            else:
                miss = lattice - int(cl[0, :-1, :].sum()) - int(cl[1, :, :-1].sum())
                ctx.check(miss == 0, "C01/gen_percolation/p1-missing-edge", lambda: f"{miss} of {lattice} lattice edges missing on {R}x{C} "
                          f"(first at {np.argwhere(~cl[0, :-1, :])[:1].tolist() or np.argwhere(~cl[1, :, :-1])[:1].tolist()})", case)


def _neighbour_helper_first(ctx):
    """history (half of the shards): the public neighbour helper of the generators is used by the caller's own code first, for every
    cell of the small grids, and what it hands back is re-arranged in place (sorted, made relative to the cell)"""
    from maze_dataset.generation import generators as G

    fn = getattr(G, "get_neighbors_in_bounds", None)
    if fn is None:
        ctx.tally("c01:neighbour-helper-not-available(not judged)")
        return
    for R in range(1, 9):
        for C in range(1, 9):
            for r in range(R):
                for c in range(C):
                    try:
                        nb = fn(np.array([r, c]), np.array([R, C]))
                        if isinstance(nb, np.ndarray) and nb.size and nb.flags.writeable:
                            nb.sort(axis=0)
                            nb -= np.array([r, c])
                        ctx.tally("c01:history:neighbour-arrays-rearranged-by-caller")
                    except Exception:  # noqa: BLE001
                        ctx.tally("c01:history:neighbour-helper-refused(not judged)")


def _dataset_traffic(ctx):
    from maze_dataset import MazeDataset, MazeDatasetConfig
    from maze_dataset.generation.generators import GENERATORS_MAP

    specs = [("gen_dfs", {}), ("gen_wilson", {}), ("gen_percolation", {"p": 0.6}), ("gen_dfs_percolation", {"p": 0.2}),
             ("gen_dfs", {"accessible_cells": 5, "do_forks": False})]
    for j, (gen, kw) in enumerate(specs):
        if not ctx.mine(j):
            continue
        with ctx.guard("C01/dataset-traffic", dict(gen=gen, kw=kw), allowed=(ValueError,)):
            cfg = MazeDatasetConfig(name=f"c01-{j}", grid_n=4 + j % 3, n_mazes=6, maze_ctor=GENERATORS_MAP[gen],
                                    maze_ctor_kwargs=kw, seed=ctx.case_seed("ds", j) % 10000)
            MazeDataset.generate(cfg, gen_parallel=False)
            ctx.tally("c01:dataset-traffic")
