"""C14 — token vocabularies and token-id codecs are fixed, duplicate-free, invertible."""

from __future__ import annotations

import hashlib

import numpy as np

LEVEL = "exploration"
TECHNIQUE = 'runtime monitoring: exhaustive comparison of the 4096 vocabulary positions with the published layout written as block formulas, codec inverse on every id and random sequences, legacy vocabularies for every mode x size built in ascending/descending/random order, corner-first prefix property for all pairs n<m<=50'
RULE = ("exhaustive over the finite parts: all 4096 positions of VOCAB_LIST against the published layout written as block formulas "
        "(and the SHA-256 of the list at the pinned commit), VOCAB_TOKEN_TO_INDEX as its inverse, all ids 0..4095 through decode/"
        "encode, unknown ids {4096, 4097, 10^6, 2^31-1, -1, -2, -100, -4095, -4096, -4097} as lists, tuples and int64/int32/int16 arrays, and unknown tokens must raise TokenError; random token sequences (list "
        "and space-joined) through encode/decode; the 3 legacy modes x every max_grid_size 1..50, each built in ascending, descending and random order of sizes within one process (duplicate-free token list, inverse "
        "map, row-major order for the rasterized mode, prefix property for the corner-first mode, codec inverse + TokenError); "
        "corner_first_ndindex(n) a permutation of the n^2 cells and a prefix of corner_first_ndindex(m) for all n<m<=50. "
        "non-trivial & distinct = distinct (check kind, parameters) evaluations")
ASSUMPTIONS = ["the published layout is the one of the pinned commit (block order of constants._VOCAB_FIELDS, README/docs)"]
EXHAUSTIVE = {"quick": True, "thorough": True}
NSHARDS = {"quick": 4, "thorough": 8}
THRESHOLDS = {"quick": {"c14:positions": 4096, "c14:ids": 4096, "c14:unknown-id": 10, "c14:unknown-id-forms": 60, "c14:unknown-token": 20,
                        "c14:random-seq": 500, "c14:legacy-vocab": 450, "c14:legacy-vocab:descending": 150, "c14:legacy-vocab:random": 150, "c14:prefix-pairs": 1225, "c14:legacy-unknown": 100,
                        "c14:legacy-codec": 450, "c14:deprecated-special-token-lookups": 8, "c14:legacy-rejudged-after-views": 450, "c14:legacy-resized-object": 250, "c14:asked-again-after-caller-edited-the-answer": 300, "c14:history:non-integer-coordinates-stringified": 500, "c14:cf-perm": 50}}
THRESHOLDS["thorough"] = dict(THRESHOLDS["quick"])
ANCHORS = ["maze_dataset.utils:corner_first_ndindex",
           "maze_dataset.tokenization.maze_tokenizer:MazeTokenizer._token_arr",
           "maze_dataset.tokenization.maze_tokenizer:MazeTokenizer.encode",
           "maze_dataset.tokenization.maze_tokenizer:MazeTokenizer.decode",
           "maze_dataset.tokenization.maze_tokenizer:MazeTokenizerModular.encode",
           "maze_dataset.tokenization.maze_tokenizer:MazeTokenizerModular.decode"]
AMBIENT = dict(generators=False, solver=False, solved=False)

PINNED_SHA256 = "bffa6d2bf5d637de5ba69a11d534041944d1f33bad67a94a82f76ff3646e859c"
SPECIALS = ["<ADJLIST_START>", "<ADJLIST_END>", "<TARGET_START>", "<TARGET_END>", "<ORIGIN_START>", "<ORIGIN_END>",
            "<PATH_START>", "<PATH_END>", "<-->", ";", "<PADDING>"]


def corner_first(n: int):
    """cells of the n x n grid ordered by shell max(r,c); inside a shell by (r,c) when r is even, by (c,r) when r is odd"""
    cells = [(r, c) for r in range(n) for c in range(n)]
    return sorted(cells, key=lambda x: (max(x), x if x[0] % 2 == 0 else (x[1], x[0])))


def vocab_layout() -> list[str]:
    out = list(SPECIALS)
    out += ["(", ",", ")", "=", "||", ":", "THEN", "-", "<UNK>"]
    out += [f"TARGET_{a}" for a in "ABCDEFGHIJKLMNOPQRSTUVWXYZ"]
    out += [f"TARGET_{d}" for d in ("NORTH", "SOUTH", "EAST", "WEST", "NORTHEAST", "NORTHWEST", "SOUTHEAST", "SOUTHWEST", "CENTER")]
    out += ["NORTH", "SOUTH", "EAST", "WEST", "FORWARD", "BACKWARD", "LEFT", "RIGHT", "STAY"]
    out += [f"+{i}" for i in range(256)]
    out += [f"{i}" for i in range(128)]
    out += [f"{i}" for i in range(-256, 0)]
    out += ["STEP", "ADJ_GROUP", "&", "<XX>"]
    out += [f"<RESERVE_{i}>" for i in range(708, 1596)]
    out += [f"({r},{c})" for r, c in corner_first(50)]
    return out


def run(ctx):
    from maze_dataset.constants import VOCAB_LIST, VOCAB_TOKEN_TO_INDEX
    from maze_dataset.tokenization.maze_tokenizer import MazeTokenizer, MazeTokenizerModular, TokenError, TokenizationMode
    from maze_dataset.utils import corner_first_ndindex
    import maze_dataset

    layout = vocab_layout()
    assert len(layout) == 4096 and len(set(layout)) == 4096
    if ctx.mine(0):
        ctx.check(maze_dataset.VOCAB_LIST is VOCAB_LIST or list(maze_dataset.VOCAB_LIST) == list(VOCAB_LIST), "C14/package-export-differs", "", None)
        ctx.check(len(VOCAB_LIST) == 4096, "C14/vocab-size", f"len={len(VOCAB_LIST)}", None)
        ctx.check(len(set(VOCAB_LIST)) == len(VOCAB_LIST), "C14/vocab-duplicates", "", None)
        for i, exp in enumerate(layout):
            got = VOCAB_LIST[i] if i < len(VOCAB_LIST) else None
            ctx.ev(); ctx.tally("c14:positions")
            if got != exp:
                blk = ("special" if i < 11 else "delims" if i < 20 else "target" if i < 55 else "path-dir" if i < 64 else
                       "pos-int" if i < 320 else "ctt" if i < 448 else "neg-int" if i < 704 else "adj-misc" if i < 708 else
                       "reserve" if i < 1596 else "coords")
                ctx.violation(f"C14/layout-position-differs/{blk}", f"position {i}: got {got!r} expected {exp!r}", dict(position=i))
            ctx.check(VOCAB_TOKEN_TO_INDEX.get(got) == i, "C14/token-to-index-not-inverse", f"position {i} token {got!r} maps to {VOCAB_TOKEN_TO_INDEX.get(got)}", dict(position=i))
            ctx.nontrivial("pos", i)
        ctx.check(len(VOCAB_TOKEN_TO_INDEX) == len(VOCAB_LIST), "C14/token-to-index-size", f"{len(VOCAB_TOKEN_TO_INDEX)}", None)
        sha = hashlib.sha256("\n".join(VOCAB_LIST).encode()).hexdigest()
        ctx.check(sha == PINNED_SHA256, "C14/vocab-hash-changed", f"sha256={sha}", None)
        ctx.sample(dict(kind="layout", first=VOCAB_LIST[:12], at_1596=VOCAB_LIST[1596:1606], sha256=sha))
    tok = MazeTokenizerModular()
    if ctx.mine(1):
        # every id, singly and as one sequence
        for i in range(4096):
            ctx.ev(); ctx.tally("c14:ids")
            try:
                t = MazeTokenizerModular.decode([i])
                back = MazeTokenizerModular.encode(t)
                ctx.check(t == [layout[i]] and back == [i], "C14/codec-not-inverse-on-id", f"id {i} -> {t} -> {back}", dict(id=i))
            except Exception as e:  # noqa: BLE001
                ctx.violation(f"C14/codec-raises-on-valid-id/{type(e).__name__}", f"id {i}: {e}", dict(id=i))
        allids = list(range(4096))
        ctx.check(tok.encode(tok.decode(allids)) == allids, "C14/codec-not-inverse-on-all-ids", "", None)
        ctx.check(tok.encode(tok.decode(allids, joined_tokens=True)) == allids, "C14/codec-not-inverse-on-joined", "", None)
        for bad in (4096, 10**6, -1, -2, -100, -4095, -4096, -4097, 4097, 2**31 - 1):
            ctx.ev(); ctx.tally("c14:unknown-id")
            forms = [[bad], [5, bad, 7], (bad,), (5, bad, 7), np.array([bad], dtype=np.int64), np.array([5, bad, 7], dtype=np.int64)]
            if -2**31 <= bad < 2**31:
                forms += [np.array([bad], dtype=np.int32), np.array([7, bad], dtype=np.int32)]
            if -2**15 <= bad < 2**15:
                forms += [np.array([bad, 3], dtype=np.int16)]
            for seq in forms:
                ctx.tally("c14:unknown-id-forms")
                try:
                    r = MazeTokenizerModular.decode(seq)
                    ctx.violation("C14/modular-decode-accepts-unknown-id/" + ("negative" if bad < 0 else "too-large"),
                                  f"decode({seq}) returned {r!r} instead of raising TokenError", dict(ids=seq, form=type(seq).__name__ + (":" + str(seq.dtype) if isinstance(seq, np.ndarray) else "")))
                except TokenError:
                    pass
                except Exception as e:  # noqa: BLE001
                    ctx.violation(f"C14/modular-decode-wrong-exception/{type(e).__name__}", f"decode({seq!r}): {e}", dict(ids=seq))
        for badtok in ["<NOPE>", "(50,0)", "(0,50)", "+256", "128", "-257", "", "north", "( 0,0)", "<RESERVE_707>", "<RESERVE_1596>",
                       "TARGET_", "<adjlist_start>", "STEP ", "(-1,0)", "(00,1)", "XX", "<X>", "THEN2", "||="]:
            ctx.ev(); ctx.tally("c14:unknown-token")
            try:
                r = MazeTokenizerModular.encode([badtok])
                ctx.violation("C14/modular-encode-accepts-unknown-token", f"encode([{badtok!r}]) returned {r}", dict(token=badtok))
            except TokenError:
                pass
            except Exception as e:  # noqa: BLE001
                ctx.violation(f"C14/modular-encode-wrong-exception/{type(e).__name__}", f"{badtok!r}: {e}", dict(token=badtok))
    # random sequences
    n_seq = 2000 if ctx.quick else 40000
    for j in range(n_seq):
        if not ctx.mine(j):
            continue
        rng = ctx.sub_rng("seq", j)
        ids = [int(x) for x in rng.integers(0, 4096, size=int(rng.integers(0, 60)))]
        toks = [layout[i] for i in ids]
        ctx.ev(); ctx.tally("c14:random-seq")
        ctx.nontrivial("seq", tuple(ids))
        with ctx.guard("C14/random-seq", dict(ids=ids)):
            ctx.check(tok.decode(ids) == toks, "C14/decode-wrong", f"{ids[:10]}", dict(ids=ids))
            ctx.check(tok.encode(toks) == ids, "C14/encode-wrong", f"{toks[:10]}", dict(ids=ids))
            ctx.check(tok.encode(" ".join(toks)) == ids, "C14/encode-joined-wrong", f"{toks[:10]}", dict(ids=ids))
            ctx.check(tok.decode(ids, joined_tokens=True) == " ".join(toks), "C14/decode-joined-wrong", "", dict(ids=ids))
            if j % 3 == 0 and ids:
                # what encode / decode hand back belongs to the caller: padding or trimming it in place, then asking again
                for how, call in (("encode(list)", lambda: tok.encode(toks)), ("encode(joined)", lambda: tok.encode(" ".join(toks))), ("decode", lambda: tok.decode(ids))):
                    first = call()
                    if isinstance(first, list):
                        first.insert(0, first[-1]); first.extend(first[:3]); del first[1]
                    again = call()
                    ctx.tally("c14:asked-again-after-caller-edited-the-answer")
                    ctx.check(list(again) == (ids if how.startswith("encode") else toks), "C14/answer-depends-on-what-the-caller-did-with-an-earlier-answer",
                              f"{how}: the second call returned {list(again)[:8]}... ({len(again)} items), expected {len(ids)} items", dict(ids=ids, how=how))
            for dt in (np.int64, np.int32, np.int16, np.uint16):
                arr = np.array(ids, dtype=dt)
                ctx.check(tok.decode(arr) == toks, "C14/decode-ndarray-wrong", f"dtype {np.dtype(dt)}", dict(ids=ids))
            ctx.check(tok.decode(tuple(ids)) == toks, "C14/decode-tuple-wrong", "", dict(ids=ids))
        if j < 2:
            ctx.sample(dict(kind="random-seq", ids=ids[:8], tokens=toks[:8]))
    # legacy vocabularies: every (mode, size) is built three times in this process - in ascending, descending and a random
    # order of sizes - so that a vocabulary that depends on which other tokenizers were built before is seen
    def legacy_case(mode, n, order_tag, resized_from=None):
        case = dict(mode=mode.value, max_grid_size=n, construction_order=order_tag)
        with ctx.guard("C14/legacy-vocab", case):
            # the size as a python int or as a numpy scalar of any integer type that holds it
            mgs_forms = [int, np.int64, np.int8, np.uint8, np.int16, np.int32]
            mgs = mgs_forms[(n + len(order_tag)) % len(mgs_forms)](n)
            case["max_grid_size_type"] = type(mgs).__name__
            if resized_from is None:
                lt = MazeTokenizer(tokenization_mode=mode, max_grid_size=mgs)
            else:
                # one tokenizer object that already served another grid size: some of its views were read, then the size was changed
                # and the caches cleared (the class is a mutable dataclass and `clear_cache` is its way to re-derive the vocabulary)
                n0 = resized_from
                case["resized_from"] = n0
                lt = MazeTokenizer(tokenization_mode=mode, max_grid_size=n0)
                r0 = ctx.sub_rng("resize", mode.value, n0, n)
                views = ["token_arr", "tokenizer_map", "vocab_size", "node_strings_map", "padding_token_index", "n_tokens", "name",
                         "coordinate_tokens_coords", "coordinate_tokens_ids", "encode"]
                picked = [views[int(i)] for i in r0.permutation(len(views))[: int(r0.integers(0, len(views) + 1))]]
                case["views_read_before"] = picked
                for attr in picked:
                    try:
                        if attr == "encode":
                            lt.encode(SPECIALS[:3])
                        else:
                            getattr(lt, attr)
                    except Exception:  # noqa: BLE001
                        ctx.tally("c14:legacy-view-unavailable(not judged)")
                lt.max_grid_size = mgs
                lt.clear_cache()
                ctx.tally("c14:legacy-resized-object")
            arr = list(lt.token_arr)
            mp = lt.tokenizer_map
            ctx.ev(); ctx.tally("c14:legacy-vocab"); ctx.tally(f"c14:legacy-vocab:{order_tag}"); ctx.nontrivial("legacy", mode.value, n)
            ctx.check(len(set(arr)) == len(arr), "C14/legacy-vocab-duplicates", f"{len(arr) - len(set(arr))} duplicates", case)
            ctx.check(len(mp) == len(arr) and all(mp[t] == i for i, t in enumerate(arr)), "C14/legacy-map-not-inverse", "", case)
            ctx.check(arr[:11] == SPECIALS, "C14/legacy-specials-not-first", f"{arr[:11]}", case)
            ctx.check(lt.vocab_size == len(arr), "C14/legacy-vocab-size", "", case)
            coords = arr[11:]
            if mode == TokenizationMode.AOTP_UT_rasterized:
                exp = [f"({r},{c})" for r in range(n) for c in range(n)]
                ctx.check(coords == exp, "C14/rasterized-not-row-major", f"{coords[:8]}", case)
            elif mode == TokenizationMode.AOTP_UT_uniform:
                exp = [f"({r},{c})" for r, c in corner_first(n)]
                ctx.check(coords == exp, "C14/uniform-not-corner-first", f"{coords[:10]}", case)
                ctx.check(arr == layout[:11] + layout[1596:1596 + n * n], "C14/uniform-not-prefix-of-modular-coord-block", "", case)
            else:
                exp = ["(", ",", ")"] + [str(i) for i in range(n)]
                ctx.check(coords == exp, "C14/ctt-indexed-vocab-wrong", f"{coords[:8]}", case)
            # codec
            rng = ctx.sub_rng("legacy", mode.value, n)
            ids = [int(x) for x in rng.integers(0, len(arr), size=30)]
            toks = [arr[i] for i in ids]
            ctx.tally("c14:legacy-codec")
            ctx.check(lt.decode(ids) == toks and lt.encode(toks) == ids and lt.encode(" ".join(toks)) == ids
                      and lt.decode(ids, joined_tokens=True) == " ".join(toks), "C14/legacy-codec-not-inverse", "", case)
            ctx.check(lt.encode(lt.decode(list(range(len(arr))))) == list(range(len(arr))), "C14/legacy-codec-not-inverse-all", "", case)
            # reading any of the tokenizer's public (cached) views may not disturb the vocabulary: read them all, then judge again
            for attr in ("name", "node_strings_map", "vocab_size", "n_tokens", "padding_token_index", "coordinate_tokens_coords",
                         "coordinate_tokens_ids", "is_AOTP", "is_UT", "token_arr", "tokenizer_map", "summary"):
                try:
                    v = getattr(lt, attr)
                    if callable(v):
                        v()
                except Exception:  # noqa: BLE001  (CTT mode documents that the coordinate helpers are not available)
                    ctx.tally("c14:legacy-view-unavailable(not judged)")
            ctx.tally("c14:legacy-rejudged-after-views")
            arr2, mp2 = list(lt.token_arr), lt.tokenizer_map
            ctx.check(arr2 == arr and len(mp2) == len(arr) and all(mp2.get(t) == i for i, t in enumerate(arr)), "C14/legacy-map-not-inverse-after-reading-views",
                      lambda: f"token list {len(arr2)} entries, map {len(mp2)} entries; missing {[t for t in arr if t not in mp2][:4]}", case)
            try:
                ctx.check(lt.encode(arr[:11]) == list(range(11)) and lt.decode(list(range(11))) == arr[:11], "C14/legacy-codec-not-inverse-after-reading-views", "", case)
            except Exception as e:  # noqa: BLE001
                ctx.violation(f"C14/legacy-codec-raises-after-reading-views/{type(e).__name__}", repr(e)[:300], case)
            # every in-grid coordinate token is known and maps to its position
            if mode != TokenizationMode.AOTP_CTT_indexed:
                want = [f"({r},{c})" for r in range(n) for c in range(n)]
                ctx.check(all(t in mp for t in want) and len(coords) == n * n, "C14/legacy-vocab-misses-in-grid-coordinate",
                          lambda: f"missing {[t for t in want if t not in mp][:5]}", case)
            for bad in (len(arr), len(arr) + 7, -1, -len(arr), -len(arr) - 1):
                ctx.tally("c14:legacy-unknown")
                # the statement promises the token error only for the modular vocabulary: observed, not judged
                try:
                    lt.decode([bad])
                    ctx.tally("c14:legacy-unknown-id-accepted(not judged)")
                except Exception:  # noqa: BLE001
                    pass
            for badtok in (f"({n},0)" if mode != TokenizationMode.AOTP_CTT_indexed else str(n), "<NOPE>"):
                try:
                    lt.encode([badtok])
                    ctx.tally("c14:legacy-unknown-token-accepted(not judged)")
                except Exception:  # noqa: BLE001
                    pass

    # history: the special tokens looked up under their deprecated spellings (lower case, the old "adj_list" names) - the library
    # answers with a DeprecationWarning; nothing built afterwards may differ
    from maze_dataset.constants import SPECIAL_TOKENS
    if ctx.shard % 2 == 1:
        import warnings as _w
        with _w.catch_warnings():
            _w.simplefilter("ignore")
            for key in ("adj_list_start", "ADJ_LIST_END", "adjlist_start", "path_start", "Padding", "ADJ_LIST_START"):
                try:
                    SPECIAL_TOKENS[key]
                    ctx.tally("c14:deprecated-special-token-lookups")
                except Exception:  # noqa: BLE001
                    ctx.tally("c14:deprecated-lookup-rejected(not judged)")
    if ctx.shard % 3 == 1:
        # history: coordinates of other numeric types (a model's rounded float predictions, booleans, numpy scalars) turned into
        # coordinate strings through the library before any legacy vocabulary is built; nothing built afterwards may differ
        import warnings as _w2
        from maze_dataset import token_utils as _tu
        with _w2.catch_warnings():
            _w2.simplefilter("ignore")
            r_h = ctx.sub_rng("float-coords")
            for _ in range(200):
                n_h = int(r_h.integers(1, 51))
                c = r_h.integers(0, n_h, size=2)
                forms = [c.astype(np.float64), c.astype(np.float32), np.round(c + r_h.random(2) * 0.2 - 0.1), c.astype(bool) if n_h <= 2 else c.astype(np.float16), tuple(float(x) for x in c)]
                for f in forms:
                    for fn_name in ("_coord_to_strings_UT", "_coord_to_strings_indexed"):
                        fn = getattr(_tu, fn_name, None)
                        if fn is None:
                            continue
                        try:
                            fn(f)
                            ctx.tally("c14:history:non-integer-coordinates-stringified")
                        except Exception:  # noqa: BLE001
                            ctx.tally("c14:history:non-integer-coordinate-rejected(not judged)")
                try:
                    MazeTokenizer(tokenization_mode=TokenizationMode.AOTP_UT_uniform, max_grid_size=None).coords_to_strings([forms[0], forms[2]])
                    ctx.tally("c14:history:non-integer-coordinates-stringified")
                except Exception:  # noqa: BLE001
                    ctx.tally("c14:history:non-integer-coordinate-rejected(not judged)")
    modes = list(TokenizationMode)
    mine_pairs = [(mode, n) for mi, mode in enumerate(modes) for n in range(1, 51) if ctx.mine(mi * 50 + n)]
    for order_tag in ("ascending", "descending", "random"):
        pairs = list(mine_pairs)
        if order_tag == "descending":
            pairs = pairs[::-1]
        elif order_tag == "random":
            pairs = [pairs[int(i)] for i in ctx.sub_rng("legacy-order").permutation(len(pairs))]
        for mode, n in pairs:
            legacy_case(mode, n, order_tag)
    r_rs = ctx.sub_rng("legacy-resize")
    for mode, n in mine_pairs:
        for n0 in {int(r_rs.integers(1, 51)), max(1, n - 1), min(50, n + 3)} - {n}:
            legacy_case(mode, n, "resized-object", resized_from=n0)
    # corner-first ordering: permutation + prefix property for all pairs
    cf = {}
    for n in range(1, 51):
        with ctx.guard("C14/corner_first_ndindex", dict(n=n)):
            got_cf = corner_first_ndindex(n)
            cf[n] = [tuple(int(x) for x in t) for t in got_cf]
            # the list belongs to the caller: sorted / trimmed in place before the same size is asked for again (below, and by the
            # uniform tokenizers built afterwards)
            if isinstance(got_cf, list) and n % 2:
                got_cf.sort(); del got_cf[:1]
                ctx.tally("c14:corner-first-answer-edited-by-caller")
    for n in list(range(50, 0, -1)) + [int(x) for x in ctx.sub_rng("cf-order").permutation(50) + 1]:
        # again in descending and random order: the answer may not depend on what was asked before
        with ctx.guard("C14/corner_first_ndindex", dict(n=n)):
            again = [tuple(int(x) for x in t) for t in corner_first_ndindex(n)]
            ctx.check(again == cf.get(n), "C14/corner-first-depends-on-history", f"n={n}: second call differs from the first", dict(n=n))
    for n in range(1, 51):
        if not ctx.mine(n) or n not in cf:
            continue
        ctx.ev(); ctx.tally("c14:cf-perm")
        ctx.check(sorted(cf[n]) == [(r, c) for r in range(n) for c in range(n)] and len(cf[n]) == n * n,
                  "C14/corner-first-not-permutation", f"n={n}", dict(n=n))
        ctx.check(cf[n] == corner_first(n), "C14/corner-first-order-differs", f"n={n}: {cf[n][:10]}", dict(n=n))
        for m in range(n + 1, 51):
            ctx.ev(); ctx.tally("c14:prefix-pairs"); ctx.nontrivial("prefix", n, m)
            if m in cf:
                ctx.check(cf[m][: n * n] == cf[n], "C14/corner-first-not-prefix", f"n={n} m={m}", dict(n=n, m=m))
        # uniform legacy vocab prefix across sizes
        with ctx.guard("C14/uniform-prefix", dict(n=n)):
            a = MazeTokenizer(tokenization_mode=TokenizationMode.AOTP_UT_uniform, max_grid_size=n).token_arr
            m = min(50, n + 1 + (n * 7) % 9)
            b = MazeTokenizer(tokenization_mode=TokenizationMode.AOTP_UT_uniform, max_grid_size=m).token_arr
            ctx.check(list(b[: len(a)]) == list(a), "C14/uniform-vocab-not-prefix", f"n={n} m={m}", dict(n=n, m=m))
