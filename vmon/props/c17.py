"""C17 — rasterized input/target images show the problem and only the solution."""

from __future__ import annotations

import itertools
import warnings

import numpy as np

from .. import lib, ref
from ..ref import Graph

OPTIMISED_LAST_SHARD = True  # the last shard runs under python -O (no assert statements)
LEVEL = "exploration"
TECHNIQUE = 'runtime monitoring: per-pixel reference model of input/target images (incl. isolated-pixel removal and pixel extension) judges process_maze_rasterized_input_target, dataset items and batches for all 8 option combinations'
RULE = ("process_maze_rasterized_input_target(maze, opts) and RasterizedMazeDataset[i] / get_batch(idxs) compared pixel by pixel with "
        "an oracle written from the statement (input = maze picture with the path hidden and endpoints kept; target = wall except "
        "the solution pixels, endpoints coloured or open; optional isolated-pixel removal; optional 2x extension + 1-pixel wall "
        "frame) for solved mazes from all generators incl. percolation mazes with isolated cells and harness-built structures, grid "
        "2..10 (a quarter of the harness-built ones oblong, 1..10 columns), option combinations in varying order on one maze object, solutions of length 1, 2 and long, all 8 option combinations; batches with None, permutations and repeats. "
        "non-trivial & distinct = distinct (connection structure, solution, options) images with a solution of >= 2 cells")
ASSUMPTIONS = ["isolated-pixel removal is applied before pixel extension (the order the option names suggest)",
               "'open pixels with no open 4-neighbour become wall' is read as the option documents itself (docstring of _remove_isolated_cells: a cell 'surrounded by walls on all sides'): open = not wall, for the pixel and for its neighbours, so a start/end pixel counts as open on both sides of the rule"]
NSHARDS = {"quick": 16, "thorough": 16}
THRESHOLDS = {"quick": {**{f"c17:opts:{a}{b}{c}": 200 for a in "TF" for b in "TF" for c in "TF"}, "c17:images": 3000,
                        "c17:one-cell-solution": 50, "c17:two-cell-solution": 50, "c17:isolated-cells-present": 200,
                        "c17:isolated-pixel-removed": 200, "c17:dataset-items": 300, "c17:batches": 60, "c17:two-batches-held-together": 20, "c17:items-rejudged-after-refused-requests": 10, "c17:batch-none": 10,
                        "c17:batch-repeats": 10, "c17:from-generators": 300, "c17:subclass-instances": 100, "c17:items-overwritten-by-caller": 60, "c17:oblong": 40}}
THRESHOLDS["thorough"] = dict(THRESHOLDS["quick"])
ANCHORS = ["maze_dataset.dataset.rasterized:process_maze_rasterized_input_target", "maze_dataset.dataset.rasterized:_extend_pixels",
           "maze_dataset.maze.lattice_maze:_remove_isolated_cells", "maze_dataset.dataset.rasterized:RasterizedMazeDataset.__getitem__",
           "maze_dataset.dataset.rasterized:RasterizedMazeDataset.get_batch",
           "maze_dataset.dataset.rasterized:RasterizedMazeDataset.from_base_MazeDataset"]
AMBIENT = dict(generators=True, solver=False, solved=False)
OPTS = list(itertools.product([True, False], repeat=3))


def cmp(ctx, got, exp, amb, mech, case):
    got = np.asarray(got)
    if not ctx.check(got.shape == exp.shape, f"{mech}/wrong-size", f"got {got.shape} expected {exp.shape}", case):
        return
    bad = (got != exp).any(axis=-1) & ~amb
    if bad.any():
        p = tuple(int(x) for x in np.argwhere(bad)[0])
        expc = ref.ASCII_OF.get(tuple(int(v) for v in exp[p]), "?"); gotc = ref.ASCII_OF.get(tuple(int(v) for v in got[p]), "?")
        ctx.violation(f"{mech}/pixel-differs/expected-{expc!r}-got-{gotc!r}",
                      f"{int(bad.sum())} pixels differ; first at {p}\nexpected:\n{ref.ascii_of(exp)}\ngot:\n{ref.ascii_of(got)}", case)


def check_maze(ctx, maze, cl, sol, case, opts_list):
    from maze_dataset.dataset.rasterized import process_maze_rasterized_input_target

    g = Graph(cl)
    iso_cells = sum(1 for c in g.adj if not g.adj[c])
    for (ric, ext, eao) in opts_list:
        tag = "".join("T" if x else "F" for x in (ric, ext, eao))
        c2 = dict(case, remove_isolated_cells=ric, extend_pixels=ext, endpoints_as_open=eao)
        with ctx.guard(f"C17/process/{tag}", c2):
            out = process_maze_rasterized_input_target(maze, remove_isolated_cells=ric, extend_pixels=ext, endpoints_as_open=eao)
            arr = np.asarray(out)
            ctx.ev(); ctx.tally("c17:images"); ctx.tally(f"c17:opts:{tag}")
            einp, etgt, ainp, atgt = ref.raster_pair(cl, sol, ric, ext, eao)
            if not ctx.check(arr.ndim == 4 and arr.shape[0] == 2 and arr.shape[-1] == 3, f"C17/process/{tag}/wrong-tensor-shape", f"{arr.shape}", c2):
                continue
            cmp(ctx, arr[0], einp, ainp, f"C17/input/{tag}", c2)
            cmp(ctx, arr[1], etgt, atgt, f"C17/target/{tag}", c2)
            if len(sol) >= 2:
                ctx.nontrivial(cl, np.asarray(sol), tag)
            if ric and iso_cells:
                ctx.tally("c17:isolated-cells-present")
                base = ref.raster_pair(cl, sol, False, ext, eao)[0]
                if (base != einp).any():
                    ctx.tally("c17:isolated-pixel-removed")
    if len(sol) == 1:
        ctx.tally("c17:one-cell-solution")
    if len(sol) == 2:
        ctx.tally("c17:two-cell-solution")


def run(ctx):
    from maze_dataset import MazeDataset, MazeDatasetConfig
    from maze_dataset.dataset.rasterized import RasterizedMazeDataset, RasterizedMazeDatasetConfig
    from maze_dataset.generation.generators import GENERATORS_MAP

    n_h = 1200 if ctx.quick else 10000
    for j in range(n_h):
        if not ctx.mine(j):
            continue
        rng = ctx.sub_rng("h", j)
        g = int(rng.integers(2, 11))
        g2 = g
        if j % 4 == 3:
            g2 = int(rng.integers(1, 11))  # oblong (a solved maze need not be square)
            if g2 != g:
                ctx.tally("c17:oblong")
        fam = ["tree", "perc2", "perc4", "perc6", "cyc3", "empty", "full", "serpentine"][j % 8]
        fam, cl = ref.random_structure(g, g2, rng, fam)
        gr = Graph(cl)
        cells = ref.all_cells(g, g2)
        s = cells[int(rng.integers(len(cells)))]
        comp = sorted(gr.component_of(s))
        mode = j % 4
        e = s if mode == 0 else (gr.adj[s][0] if (mode == 1 and gr.adj[s]) else comp[int(rng.integers(len(comp)))])
        sol = gr.shortest_path(s, e, rng)
        if j % 5 == 2:
            maze = lib.solved_subclass(cl, sol); ctx.tally("c17:subclass-instances")
        else:
            maze = lib.solved(cl, sol)
        case = dict(kind="harness", family=fam, grid_n=g, shape=(g, g2), cl=cl, solution=sol, subclass=(j % 5 == 2))
        # the 8 option combinations in a per-case order (the same maze object is rasterized 8 times)
        order = [OPTS[int(i)] for i in rng.permutation(8)] if j % 2 else OPTS
        check_maze(ctx, maze, cl, sol, case, order)
        if j < 2:
            ctx.sample(dict(kind="harness", family=fam, grid_n=g, solution=sol))
    # library-generated datasets, items and batches
    gens = [("gen_dfs", {}), ("gen_wilson", {}), ("gen_percolation", dict(p=0.5)), ("gen_dfs_percolation", dict(p=0.2)),
            ("gen_dfs", dict(accessible_cells=4)), ("gen_prim", {}), ("gen_percolation", dict(p=0.8))]
    n_d = 256 if ctx.quick else 1600
    for j in range(n_d):
        if not ctx.mine(j):
            continue
        rng = ctx.sub_rng("d", j)
        gen, kw = gens[j % len(gens)]
        g = int(rng.integers(2, 9))
        n = int(rng.integers(1, 7))
        opts = OPTS[j % 8]
        case = dict(kind="dataset", gen=gen, kwargs=kw, grid_n=g, n=n, opts=opts)
        with warnings.catch_warnings():
            warnings.simplefilter("ignore")
            try:
                base = MazeDataset.generate(MazeDatasetConfig(name=f"c17-{j}", grid_n=g, n_mazes=n, maze_ctor=GENERATORS_MAP[gen],
                                                              maze_ctor_kwargs=kw, seed=int(rng.integers(1 << 30))))
            except ValueError:
                ctx.tally("rejected:C17/generate:ValueError")
                continue
            with ctx.guard("C17/dataset", case):
                added = dict(remove_isolated_cells=opts[0], extend_pixels=opts[1], endpoints_as_open=opts[2])
                rds = RasterizedMazeDataset.from_base_MazeDataset(base, added_params=added) if j % 5 else \
                    RasterizedMazeDataset.from_base_MazeDataset(base)
                if not j % 5:
                    opts = (True, True, False)  # documented defaults of from_base_MazeDataset
                ctx.check(len(rds) == n, "C17/dataset/len-differs", f"{len(rds)} vs {n}", case)
                exp_items = []
                for i, m in enumerate(base.mazes):
                    cl = np.asarray(m.connection_list); sol = [tuple(int(x) for x in p) for p in m.solution]
                    check_maze(ctx, m, cl, sol, dict(case, index=i), [opts])
                    ctx.tally("c17:from-generators")
                    einp, etgt, ainp, atgt = ref.raster_pair(cl, sol, *opts)
                    item = np.asarray(rds[i])
                    ctx.ev(); ctx.tally("c17:dataset-items")
                    if ctx.check(item.shape == (2, *einp.shape), "C17/dataset-item/wrong-shape", f"{item.shape}", dict(case, index=i)):
                        cmp(ctx, item[0], einp, ainp, "C17/dataset-item/input", dict(case, index=i))
                        cmp(ctx, item[1], etgt, atgt, "C17/dataset-item/target", dict(case, index=i))
                    exp_items.append((einp, etgt, ainp, atgt))
                # what the caller does to a returned item (in-place normalisation, zeroing) must not show up in later items/batches
                if n and j % 2 == 0:
                    for i in range(n):
                        it = rds[i]
                        try:
                            it[...] = 0
                        except Exception:  # noqa: BLE001
                            try:
                                it.zero_()
                            except Exception:  # noqa: BLE001
                                ctx.tally("c17:item-not-writable(not judged)")
                    ctx.tally("c17:items-overwritten-by-caller")
                    for i in range(n):
                        einp, etgt, ainp, atgt = exp_items[i]
                        item = np.asarray(rds[i])
                        if ctx.check(item.shape == (2, *einp.shape), "C17/dataset-item/wrong-shape", f"{item.shape}", dict(case, index=i)):
                            cmp(ctx, item[0], einp, ainp, "C17/dataset-item-after-caller-overwrote-earlier-result/input", dict(case, index=i))
                            cmp(ctx, item[1], etgt, atgt, "C17/dataset-item-after-caller-overwrote-earlier-result/target", dict(case, index=i))
                # batches
                for b in range(3):
                    if b == 0:
                        idxs = None; ctx.tally("c17:batch-none")
                    elif b == 1:
                        idxs = [int(x) for x in rng.permutation(n)]
                    else:
                        idxs = [int(x) for x in rng.integers(0, n, size=int(rng.integers(1, 2 * n + 2)))]
                        if len(set(idxs)) < len(idxs):
                            ctx.tally("c17:batch-repeats")
                    batch = np.asarray(rds.get_batch(idxs))
                    use = list(range(n)) if idxs is None else idxs
                    ctx.ev(); ctx.tally("c17:batches")
                    c3 = dict(case, idxs=idxs)
                    if not ctx.check(batch.shape[:2] == (2, len(use)), "C17/batch/wrong-shape", f"{batch.shape} for {len(use)} indices", c3):
                        continue
                    for k, i in enumerate(use):
                        einp, etgt, ainp, atgt = exp_items[i]
                        cmp(ctx, batch[0, k], einp, ainp, "C17/batch/input-not-in-index-order", dict(c3, position=k))
                        cmp(ctx, batch[1, k], etgt, atgt, "C17/batch/target-not-in-index-order", dict(c3, position=k))
                if n >= 2:
                    # two batches of the same length held at the same time (a training step keeps the previous batch while the next
                    # one is fetched): fetching the second may not change the first
                    i1 = [int(x) for x in rng.permutation(n)]
                    i2 = i1[::-1]
                    b1 = rds.get_batch(i1)
                    b2 = rds.get_batch(i2)
                    ctx.tally("c17:two-batches-held-together")
                    for tagb, bb, ii in (("first-after-second-was-fetched", b1, i1), ("second", b2, i2)):
                        bb = np.asarray(bb)
                        if ctx.check(bb.shape[:2] == (2, n), "C17/batch/wrong-shape", f"{bb.shape}", dict(case, idxs=ii)):
                            for k, i in enumerate(ii):
                                einp, etgt, ainp, atgt = exp_items[i]
                                cmp(ctx, bb[0, k], einp, ainp, f"C17/batch/input-not-in-index-order/{tagb}", dict(case, idxs=ii, position=k))
                                cmp(ctx, bb[1, k], etgt, atgt, f"C17/batch/target-not-in-index-order/{tagb}", dict(case, idxs=ii, position=k))
                if n >= 1 and j % 2 == 1:
                    # requests the dataset refuses (an index one past the end, a float index, an empty list), survived by the caller;
                    # the items and batches asked for afterwards are judged as usual
                    for bad in ([n], [0.5], [], [0, n + 3], "x"):
                        try:
                            rds.get_batch(bad)
                            ctx.tally("c17:odd-batch-request-served(not judged)")
                        except Exception:  # noqa: BLE001
                            ctx.tally("c17:batch-request-refused")
                        try:
                            rds[n + 1]
                        except Exception:  # noqa: BLE001
                            pass
                    ctx.tally("c17:items-rejudged-after-refused-requests")
                    for i in range(n):
                        einp, etgt, ainp, atgt = exp_items[i]
                        item = np.asarray(rds[i])
                        if ctx.check(item.shape == (2, *einp.shape), "C17/dataset-item/wrong-shape", f"after refused batch requests: {item.shape} expected {(2, *einp.shape)}", dict(case, index=i)):
                            cmp(ctx, item[0], einp, ainp, "C17/dataset-item-after-refused-requests/input", dict(case, index=i))
                            cmp(ctx, item[1], etgt, atgt, "C17/dataset-item-after-refused-requests/target", dict(case, index=i))
