"""C15 — the tokenizer configuration space is enumerated exactly and identified uniquely."""

from __future__ import annotations

import hashlib
import json
import os
import subprocess
import time
import warnings

import numpy as np

from .. import tokspace as ts
from ..core import VERIF_ROOT
from ..runner import PY, shard_env

LEVEL = "exploration"
TECHNIQUE = 'runtime monitoring: whole-space enumeration (5,878,656 tokenizers) compared as a multiset of parameter digests with an explicit-loop reference enumeration; name/hash uniqueness, cross-process hash tables over PYTHONHASHSEED values, save/load and identity-after-use on a covering set'
RULE = ("the whole space is enumerated in both tiers: get_all_tokenizers() (5,878,656 objects) is compared as a multiset of 16-byte "
        "digests of each tokenizer's parameters (read back from the object's attributes) with an explicit nested-loop reference "
        "enumeration of the documented validity rules (exactly once, nothing else, predicted size 9*216*1008*3); in a fresh interpreter the enumeration is read, the module's sampling helper used, and the enumeration read again (same size, same list length); all names are "
        "digested and must be pairwise distinct; all_instances(cls, validation_funcs) for every element class against the loops; "
        "hash()/hash_int()/hash_b64() distinctness (an evenly spaced sample of ~400,000 in quick, all in thorough); names and hashes of sampled tokenizers recomputed in "
        "fresh processes with PYTHONHASHSEED in {0,1,777}; load(serialize()) and zanj save/read on a pairwise covering set; "
        "name and hashes of a tokenizer must be the same after it has tokenized mazes, equal to those of an unused twin, and survive save/load of the used object; "
        "from_legacy(mode) must be legacy-equivalent and no other tokenizer may claim to be (sample in quick, all in thorough). "
        "non-trivial & distinct = distinct tokenizer configurations whose parameters, name or hash were examined")
ASSUMPTIONS = ["the validity rules are: CTT/UT coordinates; AdjList{Coord,Cardinal} with pre=False, Ungrouped(0|1|2), {All,Connection(walls)}, "
               "{Sorted,Random,Both}; Unlabeled(post); StepSequence({Singles,Forks}, 1-4 distinct step tokenizers except (Distance,), pre/intra/post); AOTP|AOP",
               "blake2b-128 digests do not collide on 5.9M items"]
EXHAUSTIVE = {"quick": True, "thorough": True}
NSHARDS = {"quick": 4, "thorough": 4}
EXPECTED = 9 * 216 * 1008 * 3
THRESHOLDS = {"quick": {"c15:enumerated": EXPECTED, "c15:reference-enumerated": EXPECTED, "c15:names-digested": EXPECTED,
                        "c15:element-classes": 10, "c15:re-enumerated-after-helpers": 1, "c15:interleaved-enumerations": 4, "c15:re-enumerated-after-new-element-class": 6, "c15:path-tokenizers-after-new-step-classes": 1, "c15:hash-checked": 300000, "c15:cross-process": 1500, "c15:hashseeds": 3,
                        "c15:save-load": 300, "c15:identity-after-use": 250, "c15:pickled": 250, "c15:zanj-file": 30, "c15:legacy-checked": 40000, "c15:from_legacy": 3,
                        "c15:legacy-neighbours": 20}}
THRESHOLDS["thorough"] = {**THRESHOLDS["quick"], "c15:hash-checked": EXPECTED, "c15:legacy-checked": EXPECTED, "c15:save-load": 2000}
ANCHORS = ["maze_dataset.tokenization.all_tokenizers:get_all_tokenizers",
           "maze_dataset.tokenization.maze_tokenizer:_TokenizerElement.name",
           "maze_dataset.tokenization.maze_tokenizer:_TokenizerElement.__hash__",
           "maze_dataset.tokenization.maze_tokenizer:MazeTokenizerModular.hash_int",
           "maze_dataset.tokenization.maze_tokenizer:_load_tokenizer_element",
           "maze_dataset.tokenization.maze_tokenizer:MazeTokenizerModular.is_legacy_equivalent",
           "maze_dataset.tokenization.maze_tokenizer:PathTokenizers.StepSequence.is_valid"]
AMBIENT = dict(generators=False, solver=False, solved=False)
NW = 16


def canon_obj(t):
    """parameters read back from a tokenizer object (attribute access only)"""
    ps = t.prompt_sequencer
    ct = ps.coord_tokenizer
    coord = "UT" if type(ct).__name__ == "UT" else ("CTT", ct.pre, ct.intra, ct.post)
    al = ps.adj_list_tokenizer
    sub = al.edge_subset
    subset = "all" if type(sub).__name__ == "AllLatticeEdges" else ("walls" if sub.walls else "conn")
    perm = {"SortedCoords": "sorted", "RandomCoords": "random", "BothCoords": "both"}.get(type(al.edge_permuter).__name__, type(al.edge_permuter).__name__)
    pt = ps.path_tokenizer
    return (type(ps).__name__, coord, type(al).__name__, al.pre, al.post, al.shuffle_d0, type(al.edge_grouping).__name__,
            getattr(al.edge_grouping, "connection_token_ordinal", None), subset, perm,
            (ps.target_tokenizer.post if hasattr(ps, "target_tokenizer") else None), type(pt).__name__, type(pt.step_size).__name__,
            tuple(type(s).__name__ for s in pt.step_tokenizers), pt.pre, pt.intra, pt.post)


def canon_params(p):
    return (p["seq"], p["coord"], p["adj_cls"], False, p["adj_post"], p["adj_shuffle"], "Ungrouped", p["ordinal"], p["subset"], p["permuter"],
            (p["tgt_post"] if p["seq"] == "AOTP" else None), "StepSequence", p["step_size"], tuple(p["steps"]), p["p_pre"], p["p_intra"], p["p_post"])


def dg(x) -> bytes:
    return hashlib.blake2b(repr(x).encode(), digest_size=16).digest()


def _fork_map(n_workers, fn, outdir, tag, meanwhile=None):
    """run fn(w) in n_workers forked children; each writes its own files; returns list of exit statuses.
    `meanwhile` runs in the parent while the children work"""
    pids = []
    for w in range(n_workers):
        pid = os.fork()
        if pid == 0:
            rc = 0
            try:
                fn(w)
            except BaseException as e:  # noqa: BLE001
                with open(os.path.join(outdir, f"{tag}-{w}.err"), "w") as f:
                    import traceback
                    f.write(traceback.format_exc())
                rc = 1
            os._exit(rc)
        pids.append(pid)
    if meanwhile is not None:
        meanwhile()
    return [os.waitpid(p, 0)[1] for p in pids]


def enumeration(ctx):
    from maze_dataset.tokenization.all_tokenizers import get_all_tokenizers
    from maze_dataset.tokenization import MazeTokenizerModular

    t0 = time.time()
    with warnings.catch_warnings():
        warnings.simplefilter("ignore")
        toks = get_all_tokenizers()
    N = len(toks)
    ctx.tally("c15:enumerated", N)
    ctx.note(f"get_all_tokenizers(): {N} objects in {time.time() - t0:.1f}s")
    ctx.check(N == EXPECTED, "C15/enumeration-size-differs-from-predicted-product", f"{N} vs {EXPECTED} = 9*216*1008*3", None)
    ctx.check(all(type(t) is MazeTokenizerModular for t in toks[:: max(1, N // 1000)]), "C15/enumeration-yields-foreign-objects", "", None)
    out = ctx.work
    full_hash = not ctx.quick
    step_h = 1 if full_hash else max(1, N // 400000)

    def work(w):
        lo, hi = w * N // NW, (w + 1) * N // NW
        pd = bytearray(); nd = bytearray(); hh = []; leg = []
        for i in range(lo, hi):
            t = toks[i]
            pd += dg(canon_obj(t))
            nd += hashlib.blake2b(t.name.encode(), digest_size=16).digest()
            if (i % step_h) == 0:
                hh.append((i, hash(t), t.hash_int(), t.hash_b64()))
            if full_hash or (i % 137) == 0:
                if t.is_legacy_equivalent():
                    leg.append(i)
        with open(os.path.join(out, f"p-{w}.bin"), "wb") as f:
            f.write(pd)
        with open(os.path.join(out, f"n-{w}.bin"), "wb") as f:
            f.write(nd)
        with open(os.path.join(out, f"h-{w}.json"), "w") as f:
            json.dump(dict(h=[(i, str(a), str(b), str(c)) for i, a, b, c in hh], leg=leg,
                           leg_checked=(hi - lo) if full_hash else len(range(lo + (-lo) % 137, hi, 137))), f)

    st = _fork_map(NW, work, out, "enum")
    if any(st):
        errs = [open(os.path.join(out, f)).read()[-500:] for f in os.listdir(out) if f.endswith(".err")]
        ctx.note(f"enumeration worker failed: {errs[:2]}"); ctx.tally("shard-crash")
        return
    # reference enumeration, also in forked workers over slices of the coordinate x adjacency product
    adj = list(ts.adj_space()); path = list(ts.path_space()); coords = list(ts.coord_space())
    units = [(c, a) for c in coords for a in adj]

    def refwork(w):
        lo, hi = w * len(units) // NW, (w + 1) * len(units) // NW
        pd = bytearray()
        for c, a in units[lo:hi]:
            for p in path:
                pd += dg(canon_params(dict(seq="AOP", coord=c, **a, **p)))
                pd += dg(canon_params(dict(seq="AOTP", coord=c, tgt_post=True, **a, **p)))
                pd += dg(canon_params(dict(seq="AOTP", coord=c, tgt_post=False, **a, **p)))
        with open(os.path.join(out, f"r-{w}.bin"), "wb") as f:
            f.write(pd)

    st = _fork_map(NW, refwork, out, "ref")
    if any(st):
        ctx.note("reference enumeration worker failed"); ctx.tally("shard-crash")
        return
    V = np.dtype((np.void, 16))
    got = np.concatenate([np.fromfile(os.path.join(out, f"p-{w}.bin"), dtype=V) for w in range(NW)])
    refd = np.concatenate([np.fromfile(os.path.join(out, f"r-{w}.bin"), dtype=V) for w in range(NW)])
    names = np.concatenate([np.fromfile(os.path.join(out, f"n-{w}.bin"), dtype=V) for w in range(NW)])
    ctx.tally("c15:reference-enumerated", len(refd)); ctx.tally("c15:names-digested", len(names))
    ctx.ev(len(got))
    ug, cg = np.unique(got, return_counts=True)
    ur = np.unique(refd)
    ctx.check(len(ur) == len(refd) == EXPECTED, "C15/harness-reference-enumeration-inconsistent", f"{len(ur)} unique of {len(refd)}", None)
    dup = ug[cg > 1]
    if len(dup):
        idx = [int(i) for i in np.nonzero(np.isin(got, dup[:1]))[0][:3]]
        ctx.violation("C15/configuration-enumerated-more-than-once", f"{len(dup)} configurations occur more than once, e.g. positions {idx}: {toks[idx[0]].name}", dict(positions=idx))
    missing = np.setdiff1d(ur, ug); extra = np.setdiff1d(ug, ur)
    if len(extra):
        i = int(np.nonzero(got == extra[0])[0][0])
        ctx.violation("C15/enumeration-includes-invalid-configuration", f"{len(extra)} enumerated configurations violate the validity rules, e.g. {toks[i].name}", dict(position=i))
    if len(missing):
        wit = None
        for p in ts.full_space():
            if dg(canon_params(p)) == bytes(missing[0]):
                wit = ts.name_of(p); break
        ctx.violation("C15/enumeration-misses-valid-configuration", f"{len(missing)} valid configurations are not enumerated, e.g. {wit}", dict(example=wit))
    un = np.unique(names)
    if len(un) != len(names):
        ctx.violation("C15/two-tokenizers-share-a-name", f"{len(names) - len(un)} name clashes among {len(names)} tokenizers", None)
    ctx.digests.update(bytes(x)[:8] for x in ug[:: max(1, len(ug) // 50000)])  # sample of distinct configurations for the evidence counter
    # hashes + legacy
    hs = {}; hi_ = {}; hb_ = {}; leg = []; legc = 0; nh = 0
    for w in range(NW):
        d = json.load(open(os.path.join(out, f"h-{w}.json")))
        for i, a, b, c in d["h"]:
            if c in hb_:
                ctx.violation("C15/two-tokenizers-share-a-hash_b64", f"hash_b64() {c}: {toks[hb_[c]].name} and {toks[i].name}", None)
            hb_[c] = i
            nh += 1
            if a in hs:
                ctx.violation("C15/two-tokenizers-share-a-hash", f"hash() {a}: {toks[hs[a]].name} and {toks[i].name}", None)
            hs[a] = i
            if b in hi_:
                ctx.violation("C15/two-tokenizers-share-a-hash_int", f"{b}", None)
            hi_[b] = i
        leg += d["leg"]; legc += d["leg_checked"]
    ctx.tally("c15:hash-checked", nh); ctx.tally("c15:legacy-checked", legc)
    legacy_images = {canon_params(dict(seq="AOTP", coord="UT", adj_cls="AdjListCoord", adj_post=True, adj_shuffle=True, ordinal=1, subset="conn",
                                       permuter="random", tgt_post=False, step_size="Singles", steps=("Coord",), p_pre=False, p_intra=False, p_post=False)),
                     canon_params(dict(seq="AOTP", coord=("CTT", True, True, True), adj_cls="AdjListCoord", adj_post=True, adj_shuffle=True, ordinal=1,
                                       subset="conn", permuter="random", tgt_post=False, step_size="Singles", steps=("Coord",), p_pre=False, p_intra=False, p_post=False))}
    for i in leg:
        ctx.check(canon_obj(toks[i]) in legacy_images, "C15/non-legacy-tokenizer-claims-legacy-equivalence", f"{toks[i].name}", dict(position=i))
    if not ctx.quick:
        found = {canon_obj(toks[i]) for i in leg}
        ctx.check(found == legacy_images, "C15/legacy-image-not-reported-equivalent", f"{len(found)} of {len(legacy_images)} legacy images report equivalence", None)
    ctx.sample(dict(kind="enumeration", size=N, first=toks[0].name, last=toks[-1].name, hashes_checked=nh, legacy_equivalent_found=len(leg)))
    for f in os.listdir(out):
        if f.endswith(".bin"):
            os.unlink(os.path.join(out, f))


def element_classes(ctx):
    from maze_dataset.tokenization import maze_tokenizer as mt
    from maze_dataset.tokenization.all_tokenizers import MAZE_TOKENIZER_MODULAR_DEFAULT_VALIDATION_FUNCS as VF
    from maze_dataset.utils import all_instances

    exp = {
        "CoordTokenizers._CoordTokenizer": (mt.CoordTokenizers._CoordTokenizer, 9),
        "EdgeGroupings._EdgeGrouping": (mt.EdgeGroupings._EdgeGrouping, 3),
        "EdgePermuters._EdgePermuter": (mt.EdgePermuters._EdgePermuter, 3),
        "EdgeSubsets._EdgeSubset": (mt.EdgeSubsets._EdgeSubset, 3),
        "AdjListTokenizers._AdjListTokenizer": (mt.AdjListTokenizers._AdjListTokenizer, 216),
        "TargetTokenizers._TargetTokenizer": (mt.TargetTokenizers._TargetTokenizer, 2),
        "StepSizes._StepSize": (mt.StepSizes._StepSize, 2),
        "StepTokenizers._StepTokenizer": (mt.StepTokenizers._StepTokenizer, 4),
        "StepTokenizers.StepTokenizerPermutation": (mt.StepTokenizers.StepTokenizerPermutation, 63),
        "PathTokenizers._PathTokenizer": (mt.PathTokenizers._PathTokenizer, 1008),
    }
    for name, (cls, n) in exp.items():
        case = dict(element_class=name)
        with ctx.guard("C15/element-class", case), warnings.catch_warnings():
            warnings.simplefilter("ignore")
            inst = list(all_instances(cls, VF))
            ctx.ev(); ctx.tally("c15:element-classes")
            names = [("(" + ", ".join(x.name for x in i) + ")") if isinstance(i, tuple) else i.name for i in inst]
            ctx.check(len(inst) == n, f"C15/element-class-count-wrong/{name}", f"{len(inst)} instances, rules predict {n}", case)
            ctx.check(len(set(names)) == len(names), f"C15/element-class-duplicates/{name}", f"{len(names) - len(set(names))} repeated", case)
            if name.endswith("StepTokenizerPermutation"):
                got = {tuple(type(s).__name__ for s in i) for i in inst}
                ctx.check(got == set(ts.step_perm_space()), "C15/step-permutations-differ-from-rules", f"missing {sorted(set(ts.step_perm_space()) - got)[:3]} extra {sorted(got - set(ts.step_perm_space()))[:3]}", case)
            if name.endswith("_AdjListTokenizer"):
                got = {(type(i).__name__, i.pre, i.post, i.shuffle_d0, type(i.edge_grouping).__name__, i.edge_grouping.connection_token_ordinal,
                        type(i.edge_subset).__name__, getattr(i.edge_subset, "walls", None), type(i.edge_permuter).__name__) for i in inst}
                want = {(a["adj_cls"], False, a["adj_post"], a["adj_shuffle"], "Ungrouped", a["ordinal"],
                         "AllLatticeEdges" if a["subset"] == "all" else "ConnectionEdges", None if a["subset"] == "all" else a["subset"] == "walls",
                         {"sorted": "SortedCoords", "random": "RandomCoords", "both": "BothCoords"}[a["permuter"]]) for a in ts.adj_space()}
                ctx.check(got == want, "C15/adjacency-tokenizers-differ-from-rules", f"missing {len(want - got)} extra {len(got - want)}", case)
            if name.endswith("_PathTokenizer"):
                got = {(type(i.step_size).__name__, tuple(type(s).__name__ for s in i.step_tokenizers), i.pre, i.intra, i.post) for i in inst}
                want = {(p["step_size"], p["steps"], p["p_pre"], p["p_intra"], p["p_post"]) for p in ts.path_space()}
                ctx.check(got == want, "C15/path-tokenizers-differ-from-rules", f"missing {len(want - got)} extra {len(got - want)}", case)
            ctx.nontrivial("cls", name, len(inst))


_USE = []


def _use_mazes():
    """two small solved mazes (harness-built) used to exercise a tokenizer"""
    if not _USE:
        from .. import lib, ref
        from ..ref import Graph

        rng = np.random.Generator(np.random.PCG64(5))
        for n in (3, 4):
            cl = ref.tree_plus(n, n, 1, rng)
            _USE.append(lib.solved(cl, Graph(cl).shortest_path((0, 0), (n - 1, n - 1))))
    return _USE


def identity_checks(ctx):
    from maze_dataset.tokenization import MazeTokenizer, MazeTokenizerModular, TokenizationMode
    from zanj import ZANJ

    rng = np.random.Generator(np.random.PCG64(ctx.seed + 4242))
    cfgs, _ = ts.covering_set(rng, 100)
    cfgs += [ts.random_params(rng) for _ in range(200 if ctx.quick else 3000)]
    mine = [p for i, p in enumerate(cfgs) if i % (ctx.nshards - 1) == ctx.shard - 1]
    # save/load
    for i, p in enumerate(mine):
        case = dict(params=p)
        with ctx.guard("C15/save-load", case), warnings.catch_warnings():
            warnings.simplefilter("ignore")
            t = ts.build_tokenizer(p)
            t2 = MazeTokenizerModular.load(t.serialize())
            ctx.ev(); ctx.tally("c15:save-load")
            ctx.nontrivial("saveload", ts.name_of(p))
            ctx.check(type(t2) is MazeTokenizerModular and canon_obj(t2) == canon_obj(t) == canon_params(p), "C15/load-serialize-not-equal",
                      lambda: f"{canon_obj(t2)} vs {canon_params(p)}", case)
            ctx.check(t2.name == t.name and hash(t2) == hash(t), "C15/load-serialize-changes-name-or-hash", f"{t2.name} vs {t.name}", case)
            if t.name == ts.name_of(p):
                ctx.tally("c15:name-follows-documented-scheme(observed, not judged)")
            # identity must not depend on use: tokenize mazes with t, then compare with the values before and with an unused twin
            before = (t.name, hash(t), t.hash_int(), t.hash_b64())
            try:
                for mz in _use_mazes():
                    t.to_tokens(mz)
                used = True
            except Exception as e:  # noqa: BLE001  (tokenization itself is C06's business)
                used = False
                ctx.tally(f"c15:use-failed(not judged):{type(e).__name__}")
            if used:
                ctx.tally("c15:identity-after-use")
                after = (t.name, hash(t), t.hash_int(), t.hash_b64())
                ctx.check(after == before, "C15/name-or-hash-changes-with-use", lambda: f"before {before} after {after}", case)
                twin = ts.build_tokenizer(p)
                ctx.check(twin.name == t.name and hash(twin) == hash(t) and (twin == t) is True, "C15/used-tokenizer-differs-from-equal-fresh-one",
                          lambda: f"used {t.name} / fresh {twin.name}", case)
                import pickle
                t5 = pickle.loads(pickle.dumps(t))
                ctx.tally("c15:pickled")
                ctx.check(t5.name == before[0] and hash(t5) == before[1] and t5.hash_int() == before[2] and (t5 == t) is True, "C15/pickle-round-trip-changes-name-or-hash",
                          lambda: f"{t5.name} vs {before[0]}", case)
                t4 = MazeTokenizerModular.load(t.serialize())
                ctx.check(t4.name == before[0] and hash(t4) == before[1] and canon_obj(t4) == canon_params(p), "C15/load-serialize-of-used-tokenizer-changes-name-or-hash",
                          lambda: f"{t4.name} vs {before[0]}", case)
            if i % 8 == 0:
                path = os.path.join(ctx.work, f"tok-{ctx.shard}-{i}.zanj")
                ZANJ().save(t, path)
                t3 = ZANJ().read(path)
                os.unlink(path)
                ctx.tally("c15:zanj-file")
                ctx.check(type(t3) is MazeTokenizerModular and canon_obj(t3) == canon_obj(t) and t3.name == t.name and hash(t3) == hash(t),
                          "C15/zanj-roundtrip-not-equal", f"{getattr(t3, 'name', t3)}", case)
    if mine:
        ctx.sample(dict(kind="save-load", params=mine[0], name=ts.name_of(mine[0])))
    # cross-process stability of names and hashes
    sample = [ts.random_params(np.random.Generator(np.random.PCG64(ctx.seed + 99 + ctx.shard))) for _ in range(1)]
    r2 = np.random.Generator(np.random.PCG64(ctx.seed * 7 + ctx.shard))
    sample = [ts.random_params(r2) for _ in range(700 if ctx.quick else 3000)]
    local = []
    with warnings.catch_warnings():
        warnings.simplefilter("ignore")
        for p in sample:
            t = ts.build_tokenizer(p)
            local.append([t.name, str(hash(t)), str(t.hash_int()), t.hash_b64()])
    hs = [0, 1, 777, 31337, 5][(ctx.shard - 1) % 3:][:1] if ctx.quick else [0, 1, 777, 31337]
    for h in hs:
        pr = subprocess.run([PY, "-m", "vmon.c15_child"], input=json.dumps(sample), capture_output=True, text=True,
                            env=shard_env(dict(PYTHONHASHSEED=str(h))), cwd=VERIF_ROOT, timeout=1200)
        if pr.returncode != 0:
            ctx.note(f"c15 child failed: {pr.stderr[-400:]}"); ctx.tally("shard-crash")
            continue
        ctx.tally("c15:hashseeds")
        res = json.loads(pr.stdout[pr.stdout.index("["):])
        for p, a, b in zip(sample, local, res):
            ctx.ev(); ctx.tally("c15:cross-process")
            ctx.check(a == b, "C15/name-or-hash-differs-across-processes", f"PYTHONHASHSEED={h}: {b} vs in-process {a}", dict(params=p, hashseed=h))
    # legacy mapping
    if ctx.shard == 1:
        with warnings.catch_warnings():
            warnings.simplefilter("ignore")
            for mode in TokenizationMode:
                for src in (mode, MazeTokenizer(tokenization_mode=mode, max_grid_size=None), MazeTokenizer(tokenization_mode=mode, max_grid_size=7)):
                    t = MazeTokenizerModular.from_legacy(src)
                    ctx.ev()
                    ctx.check(t.is_legacy_equivalent() is True, "C15/legacy-image-not-reported-equivalent", f"{mode} -> {t.name}", dict(mode=mode.value))
                ctx.tally("c15:from_legacy")
            # all one-factor neighbours of the two legacy images must not claim equivalence
            bases = [dict(seq="AOTP", coord="UT", adj_cls="AdjListCoord", adj_post=True, adj_shuffle=True, ordinal=1, subset="conn", permuter="random",
                          tgt_post=False, step_size="Singles", steps=("Coord",), p_pre=False, p_intra=False, p_post=False)]
            bases.append(dict(bases[0], coord=("CTT", True, True, True)))
            for b in bases:
                ctx.check(ts.build_tokenizer(b).is_legacy_equivalent() is True, "C15/legacy-image-not-reported-equivalent", ts.name_of(b), dict(params=b))
                for k, vals in ts.FACTORS.items():
                    for v in vals:
                        if v == b.get(k) or (k == "tgt_post" and b["seq"] != "AOTP"):
                            continue
                        nb = dict(b, **{k: v})
                        if k == "coord" and v in ("UT", ("CTT", True, True, True)):
                            continue  # the other legacy image
                        ctx.ev(); ctx.tally("c15:legacy-neighbours")
                        ctx.check(ts.build_tokenizer(nb).is_legacy_equivalent() is False, "C15/non-legacy-tokenizer-claims-legacy-equivalence", ts.name_of(nb), dict(params=nb))


def helpers_child_start(ctx):
    """enumerate -> sampling helper -> enumerate again, in a fresh interpreter (no probes: the helper hashes all 5.9M tokenizers),
    running beside the main enumeration of this shard"""
    # (started with -O: the enumeration must not depend on assert statements being executed)
    return subprocess.Popen([PY, "-O", "-m", "vmon.c15_helpers_child"], stdout=subprocess.PIPE, stderr=subprocess.PIPE, text=True,
                            env=shard_env(dict(PYTHONHASHSEED="0")), cwd=VERIF_ROOT)


def helpers_child_finish(ctx, proc):
    try:
        so, se = proc.communicate(timeout=1500)
    except subprocess.TimeoutExpired:
        proc.kill()
        ctx.tally("c15:helpers-child-timeout(not judged)")
        return
    if proc.returncode != 0 or "{" not in so:
        ctx.tally("c15:helpers-child-failed(not judged)")
        ctx.note(f"c15 helpers child failed rc={proc.returncode}: {se[-300:]}")
        return
    r = json.loads(so[so.index("{"):])
    ctx.tally("c15:re-enumerated-after-helpers")
    ctx.ev()
    if "sample_error" in r:
        ctx.tally("c15:sampling-helper-failed(not judged)")
    ctx.check(r["n_first"] == EXPECTED and r["n_again"] == r["n_first"] == r["n_first_object_now"] and r["default_in_first"] == 1 and r["default_in_again"] == 1,
              "C15/enumeration-changes-after-using-sampling-helper",
              f"fresh process: enumeration {r['n_first']} tokenizers (default tokenizer x{r['default_in_first']}); after sample_tokenizers_for_test: "
              f"{r['n_again']} (default x{r['default_in_again']}; the first list object now has {r['n_first_object_now']})", r)


def subclass_child(ctx):
    """a program that adds element classes after a first enumeration (fresh interpreter, so the classes it defines stay out of this one)"""
    import math
    try:
        pr = subprocess.run([PY, "-m", "vmon.c15_subclass_child"], capture_output=True, text=True, timeout=600, env=shard_env(dict(PYTHONHASHSEED=str(ctx.seed % 97))), cwd=VERIF_ROOT)
    except subprocess.TimeoutExpired:
        ctx.tally("c15:subclass-child-timeout(not judged)")
        return
    if pr.returncode != 0 or "{" not in pr.stdout:
        ctx.tally("c15:subclass-child-failed(not judged)")
        ctx.note(f"c15 subclass child failed rc={pr.returncode}: {pr.stderr[-300:]}")
        return
    r = json.loads(pr.stdout[pr.stdout.index("{"):])
    for key, rec in r["bases"].items():
        if "skipped" in rec:
            continue
        if "error" in rec:
            ctx.tally("c15:added-class-not-constructible(not judged)")
            ctx.note(f"c15 subclass child {key}: {rec['error']}")
            continue
        ctx.ev(); ctx.tally("c15:re-enumerated-after-new-element-class")
        ok = (rec["before_dups"] == 0 and rec["after_dups"] == 0 and rec["new_distinct"] == 2 and rec["after"] == rec["before"] + 2
              and not rec["missing"] and not rec["extra"] and rec["again_same"])
        ctx.check(ok, "C15/enumeration-ignores-or-mangles-element-class-defined-after-first-enumeration",
                  f"{key}: {rec['before']} instances, then a new concrete class with one boolean field, then {rec['after']} (missing {rec['missing']}, extra {rec['extra']}, "
                  f"duplicates {rec['after_dups']}, stable on a third enumeration: {rec['again_same']})", dict(base=key, **rec))
    for key, rec in (r.get("interleaved") or {}).items():
        if "error" in rec:
            ctx.tally("c15:interleaved-enumeration-failed(not judged)")
            ctx.note(f"c15 interleaved {key}: {rec['error']}")
            continue
        ctx.ev(); ctx.tally("c15:interleaved-enumerations")
        ctx.check(bool(rec["same"]), "C15/enumeration-depends-on-another-enumeration-being-alive",
                  f"{key}: alone {rec['alone_vf']} (validated) / {rec['alone_raw']} (raw); with the other one alive: validated {rec['inner_vf']} and {rec['outer_vf']}, raw {rec['inner_raw']} and {rec['outer_raw']}", dict(base=key, **rec))
    pl = r.get("plain") or {}
    if pl:
        ctx.ev(); ctx.tally("c15:re-enumerated-plain-dataclasses")
        ctx.check((pl["before"], pl["after"], pl["before_vf"], pl["after_vf"], pl["after_distinct"]) == (2, 6, 1, 5, 6),
                  "C15/enumeration-ignores-or-mangles-element-class-defined-after-first-enumeration",
                  f"plain dataclasses: abstract base with A(x: bool), later B(y: bool, z: bool): enumerated {pl['before']} then {pl['after']} (expected 2 then 6); "
                  f"with a validation function on A: {pl['before_vf']} then {pl['after_vf']} (expected 1 then 5)", pl)
    pa = r.get("paths")
    st = r["bases"].get("StepTokenizers._StepTokenizer", {})
    if pa and "after" in st:
        def n_paths(sizes, k):
            return sizes * (sum(math.perm(k, l) for l in range(1, 5)) - 1) * 8
        ctx.ev(); ctx.tally("c15:path-tokenizers-after-new-step-classes")
        ctx.check(pa["before"] == n_paths(pa["sizes_before"], st["before"]) and pa["after"] == n_paths(pa["sizes_after"], st["after"]),
                  "C15/enumeration-ignores-or-mangles-element-class-defined-after-first-enumeration",
                  f"path tokenizers: {pa['before']} with {pa['sizes_before']} step sizes x {st['before']} step tokenizers (expected {n_paths(pa['sizes_before'], st['before'])}); after two new "
                  f"classes {pa['after']} with {pa['sizes_after']} x {st['after']} (expected {n_paths(pa['sizes_after'], st['after'])})", pa)


def interrupt_child_start(ctx):
    return subprocess.Popen([PY, "-m", "vmon.c15_interrupt_child"], stdout=subprocess.PIPE, stderr=subprocess.PIPE, text=True, env=shard_env(dict(PYTHONHASHSEED="0")), cwd=VERIF_ROOT)


def interrupt_child_finish(ctx, proc):
    try:
        so, se = proc.communicate(timeout=1800)
    except subprocess.TimeoutExpired:
        proc.kill()
        ctx.tally("c15:interrupt-child-timeout(not judged)")
        return
    if proc.returncode != 0 or "{" not in so:
        ctx.tally("c15:interrupt-child-failed(not judged)")
        ctx.note(f"c15 interrupt child failed rc={proc.returncode}: {se[-300:]}")
        return
    r = json.loads(so[so.index("{"):])
    if r.get("interrupted") is not True:
        ctx.tally("c15:first-enumeration-not-interrupted(not judged)")
        return
    ctx.ev(); ctx.tally("c15:re-enumerated-after-interrupted-first-enumeration")
    ctx.check(r["n_after_interrupt"] == EXPECTED == r["n_uncached"], "C15/enumeration-incomplete-after-an-interrupted-one",
              f"the first get_all_tokenizers() of the process was interrupted after ~{0.85 * r['seconds_uncached']:.0f} s; the next call returned {r['n_after_interrupt']} tokenizers (uncached enumeration: {r['n_uncached']})", r)


def run(ctx):
    if ctx.shard == 0:
        hp = helpers_child_start(ctx)
        ip = interrupt_child_start(ctx)
        subclass_child(ctx)
        enumeration(ctx)
        element_classes(ctx)
        helpers_child_finish(ctx, hp)
        interrupt_child_finish(ctx, ip)
    else:
        identity_checks(ctx)
