"""C02 — shortest-path solver sound, optimal, complete."""

from __future__ import annotations

import numpy as np

from .. import lib, oracles, ref
from ..ref import Graph

OPTIMISED_LAST_SHARD = True  # the last shard runs under python -O (no assert statements)
LEVEL = "exploration"
TECHNIQUE = 'runtime monitoring: return/raise monitor on find_shortest_path judged by a BFS reference model; exhaustive over every graph with <=12 lattice edges x every ordered cell pair, adversarial and random larger graphs, plus all library-internal solver calls'
RULE = ("find_shortest_path(s, e) judged against BFS on an adjacency-set model: (1) exhaustively every connection structure on "
        "every grid with <= 12 lattice edges (1x1..1x7, 2x2, 2x3, 3x2, 2x4, 4x2, 3x3) x every ordered cell pair; (2) random trees, "
        "cyclic, percolation and A*-hostile shapes on larger square/oblong grids with sampled pairs (arguments as tuples, lists, int64/int32/int8 arrays, "
        "tuples of numpy scalars), incl. grids of 13..30 (thorough 40) cells a side and long thin grids (more than 127 / 255 cells); "
        "corridors/ladders with a side of 129..300 cells; two-lane mazes of 60..1000 (thorough 4000) columns in which the optimal route starts away from the goal; "
        " mazes exactly as the generators return them (generation metadata attached; percolation, "
        "constrained dfs) with every ordered pair; (3) SolvedMaze.from_targeted_lattice_maze; (4) the ambient solver monitor on internal calls (generate_random_path). "
        "non-trivial & distinct = distinct (connection structure, s, e) with s != e on a structure with >= 1 edge")
ASSUMPTIONS = ["mazes obey the boundary rule (no connection leaves the grid)", "start/end inside the grid"]
EXHAUSTIVE = {"quick": False, "thorough": False}
NSHARDS = {"quick": 16, "thorough": 16}
THRESHOLDS = {
    "quick": {"repotests:ambient:solver:return?repotests:runs": 50, "c02:unreachable-raised": 1000, "c02:multi-route-pairs": 1000, "c02:adv-mazes": 100, "c02:self-query": 100,
              "c02:exh-structures": 6541, "c02:from-targeted": 50, "ambient:solver:return": 20, "c02:array-args": 100, "c02:large-mazes": 60, "c02:side>127": 6, "c02:asked-again-after-caller-overwrote-the-answer": 5000, "c02:thin-cyclic-far-queries": 500, "c02:queried-object:TargetedLatticeMaze": 50, "c02:queried-object:stored-route-longer-than-shortest": 40, "c02:two-lane-mazes": 12, "c02:long-lived-objects": 8, "c02:same-bytes-other-shape": 100, "c02:generator-made-mazes": 50, "c02:generator-made-disconnected": 15,
              "hits:find_shortest_path": 1000},
}
THRESHOLDS["thorough"] = {**THRESHOLDS["quick"], "c02:exh-structures-13-17-edges": 2 * 8192 + 2 * 131072}
ANCHORS = ["maze_dataset.maze.lattice_maze:LatticeMaze.find_shortest_path",
           "maze_dataset.maze.lattice_maze:LatticeMaze.get_coord_neighbors",
           "maze_dataset.maze.lattice_maze:LatticeMaze.nodes_connected"]


ARG_FORMS = {
    1: lambda c: np.array(c),
    2: lambda c: np.array(c, dtype=np.int8),
    3: lambda c: list(c),
    4: lambda c: tuple(np.int64(x) for x in c),
    5: lambda c: np.array(c, dtype=np.int32),
}


def _solve(ctx, maze, g, s, e, case, cache, as_array=False):
    try:
        if as_array:
            f = ARG_FORMS.get(int(as_array), ARG_FORMS[1])
            res = maze.find_shortest_path(f(s), f(e))
        else:
            res = maze.find_shortest_path(s, e)
        exc = None
    except Exception as ex:  # noqa: BLE001
        res, exc = None, ex
    ctx.ev()
    oracles.check_c02(ctx, g, s, e, res, exc, case, dist_cache=cache)
    # the route handed back belongs to the caller: it is converted in place (1-based x/y, reversed, blanked) - and every now and then the
    # same pair is asked again straight away
    _ASK[0] += 1
    if isinstance(res, np.ndarray) and res.size and res.flags.writeable:
        try:
            if _ASK[0] % 2:
                res[...] = res[::-1, ::-1] + 1
            else:
                res[...] = -1
        except Exception:  # noqa: BLE001
            pass
        if _ASK[0] % 7 == 0 and case.get("kind") != "long-lived":   # (the long-lived protocol counts the queries each object answered)
            try:
                res2, exc2 = maze.find_shortest_path(s, e), None
            except Exception as ex:  # noqa: BLE001
                res2, exc2 = None, ex
            ctx.tally("c02:asked-again-after-caller-overwrote-the-answer")
            oracles.check_c02(ctx, g, s, e, res2, exc2, dict(case, asked_again=True), dist_cache=cache)
            if isinstance(res2, np.ndarray) and res2.size and res2.flags.writeable:
                res2[...] = 0


_ASK = [0]


def run(ctx):
    if ctx.shard == ctx.nshards - 1:
        from ..repotests import run_under_monitors

        run_under_monitors(ctx)
    # ---- (1) exhaustive small grids ---------------------------------------
    k = 0
    for (R, C) in ref.EXH_SHAPES:
        cells = ref.all_cells(R, C)
        slots = ref.lattice_edge_slots(R, C)
        big = len(slots) >= 10
        for mask in range(1 << len(slots)):
            k += 1
            if not ctx.mine(k):
                continue
            # quick tier: every structure on <= 9 edges with all pairs; 10..12-edge grids all structures with all pairs too
            cl = ref.cl_from_mask(R, C, mask, slots)
            g = Graph(cl)
            maze = lib.lattice(cl)
            cache: dict = {}
            ctx.tally("c02:exh-structures")
            pairs = [(s, e) for s in cells for e in cells]
            if ctx.quick and big:
                # 3x3/2x4: all 81/64 ordered pairs on a 1/3 rotating subset of structures, 20 pairs on the rest
                if (mask + ctx.seed) % 3 != 0:
                    idx = ctx.sub_rng("exh", R, C, mask).choice(len(pairs), size=20, replace=False)
                    pairs = [pairs[int(i)] for i in idx]
            for (s, e) in pairs:
                _solve(ctx, maze, g, s, e, dict(kind="exh", shape=(R, C), mask=mask, s=s, e=e), cache)
                if s != e and mask:
                    ctx.nontrivial("exh", R, C, mask, s, e)
            if mask % 1500 == 7 and len(ctx.samples) < 2:
                ctx.sample(dict(kind="exh", shape=(R, C), mask=mask, cl=cl, pairs=len(pairs)))
    # ---- (1b) thorough only: the next larger grids, every structure -----------
    if not ctx.quick:
        for (R, C) in ((2, 5), (5, 2), (3, 4), (4, 3)):
            cells = ref.all_cells(R, C)
            slots = ref.lattice_edge_slots(R, C)
            allpairs = [(s, e) for s in cells for e in cells]
            for mask in range(1 << len(slots)):
                k += 1
                if not ctx.mine(k):
                    continue
                cl = ref.cl_from_mask(R, C, mask, slots)
                g = Graph(cl)
                maze = lib.lattice(cl)
                cache = {}
                ctx.tally("c02:exh-structures-13-17-edges")
                if len(slots) <= 13 or mask % 8 == ctx.seed % 8:
                    pairs = allpairs
                else:
                    idx = ctx.sub_rng("exh2", R, C, mask).choice(len(allpairs), size=24, replace=False)
                    pairs = [allpairs[int(i)] for i in idx]
                for (s, e) in pairs:
                    _solve(ctx, maze, g, s, e, dict(kind="exh", shape=(R, C), mask=mask, s=s, e=e), cache)
                    if s != e and mask:
                        ctx.nontrivial("exh", R, C, mask, s, e)
    # ---- (2) larger / hostile mazes ---------------------------------------
    n_mazes = 320 if ctx.quick else 4000
    max_n = 12 if ctx.quick else 25
    fams = ["tree", "cyc1", "cyc3", "cycN", "perc2", "perc4", "perc6", "perc8", "full", "serpentine", "comb", "ring",
            "spiral", "wall"]
    for j in range(n_mazes):
        if not ctx.mine(j):
            continue
        rng = ctx.sub_rng("big", j)
        fam = fams[j % len(fams)]
        if rng.random() < 0.3:
            R, C = int(rng.integers(2, max_n + 1)), int(rng.integers(2, max_n + 1))
        else:
            R = C = int(rng.integers(4, max_n + 1))
        fam, cl = ref.random_structure(R, C, rng, fam)
        g = Graph(cl)
        maze = lib.lattice(cl)
        cells = ref.all_cells(R, C)
        cache = {}
        own_pair = None
        if j % 4 in (1, 2, 3):
            # the same query interface on the other maze kinds: a targeted maze, and solved mazes that carry a route which is NOT the
            # solver's (a detour through a random third cell, as a model's prediction or a hand-made route would be); the pair of the
            # object's own endpoints is among the queries
            s0 = cells[int(rng.integers(len(cells)))]
            comp0 = sorted(g.component_of(s0))
            e0 = comp0[int(rng.integers(len(comp0)))]
            if j % 4 == 1:
                maze = lib.targeted(cl, s0, e0)
                ctx.tally("c02:queried-object:TargetedLatticeMaze")
            else:
                mid = comp0[int(rng.integers(len(comp0)))]
                route = g.shortest_path(s0, mid, rng) + g.shortest_path(mid, e0, rng)[1:]
                if j % 4 == 3:
                    route = route + g.shortest_path(e0, mid, rng)[1:] + g.shortest_path(mid, e0, rng)[1:]
                maze = lib.solved(cl, route)
                ctx.tally("c02:queried-object:SolvedMaze-with-foreign-route")
                if len(route) - 1 > len(g.shortest_path(s0, e0, rng)) - 1:
                    ctx.tally("c02:queried-object:stored-route-longer-than-shortest")
            own_pair = (s0, e0)
        if fam in ("full", "serpentine", "comb", "ring", "spiral", "wall"):
            ctx.tally("c02:adv-mazes")
        npairs = len(cells) ** 2
        if (not ctx.quick) and R * C <= 64:
            pairs = [(s, e) for s in cells for e in cells]
        else:
            m = min(npairs, 120 if ctx.quick else 300)
            ii = rng.choice(npairs, size=m, replace=False)
            pairs = [(cells[int(i) // len(cells)], cells[int(i) % len(cells)]) for i in ii]
            pairs += [(cells[0], cells[-1]), (cells[-1], cells[0]), (cells[0], cells[0])]
        if own_pair is not None:
            pairs = [own_pair, (own_pair[1], own_pair[0])] + list(pairs)
        for t, (s, e) in enumerate(pairs):
            arr = (1 + (t // 5) % 5) if (t % 5 == 0) else 0
            if arr:
                ctx.tally("c02:array-args")
            _solve(ctx, maze, g, s, e, dict(kind="big", family=fam, shape=(R, C), cl=cl, s=s, e=e, j=j), cache, as_array=arr)
            if s != e:
                ctx.nontrivial("big", cl, s, e)
                if t < 25 and g.n_shortest_paths(s, e, cap=3) >= 2:
                    ctx.tally("c02:multi-route-pairs")
        if j < 3:
            ctx.sample(dict(kind="big", family=fam, shape=(R, C), cl=cl, n_pairs=len(pairs)))
        # ---- (3) from_targeted_lattice_maze ------------------------------
        if j % 3 == 0:
            from maze_dataset.maze.lattice_maze import SolvedMaze

            s, e = pairs[0]
            dist = cache.get(tuple(s)) or g.bfs(s)
            case = dict(kind="from_targeted", family=fam, shape=(R, C), cl=cl, s=s, e=e)
            try:
                sm = SolvedMaze.from_targeted_lattice_maze(lib.targeted(cl, s, e))
                res, exc = sm.solution, None
            except Exception as ex:  # noqa: BLE001
                res, exc = None, ex
            ctx.ev()
            ctx.tally("c02:from-targeted")
            oracles.check_c02(ctx, g, s, e, res, exc, case, dist_cache=cache)
    # ---- (2b) large grids (more than 127 / 255 cells, coordinates up to 39): few pairs each, far apart ------------
    n_large = 64 if ctx.quick else 640
    for j in range(n_large):
        if not ctx.mine(j):
            continue
        rng = ctx.sub_rng("large", j)
        if j % 4 == 0:
            R, C = int(rng.integers(2, 9)), int(rng.integers(16, 41))
            if j % 8 == 0:
                R, C = C, R
        else:
            R = C = int(rng.integers(13, 31 if ctx.quick else 41))
        fam = ["tree", "cyc3", "cycN", "perc6", "perc8", "serpentine", "spiral", "wall", "full", "comb"][j % 10]
        fam, cl = ref.random_structure(R, C, rng, fam)
        g = Graph(cl)
        maze = lib.lattice(cl)
        cells = ref.all_cells(R, C)
        cache = {}
        ctx.tally("c02:large-mazes")
        corners = [cells[0], cells[-1], (0, C - 1), (R - 1, 0)]
        pairs = [(a, b) for a in corners for b in corners if a != b][:6]
        pairs += [(cells[int(a)], cells[int(b)]) for a, b in rng.integers(0, len(cells), size=(10 if ctx.quick else 30, 2))]
        for t, (s, e) in enumerate(pairs):
            _solve(ctx, maze, g, s, e, dict(kind="large", family=fam, shape=(R, C), cl=cl, s=s, e=e, j=j), cache, as_array=(t % 6))
            if s != e:
                ctx.nontrivial("large", cl, s, e)
    # ---- (2c) grids with a side longer than 127 / 255 cells (corridors, ladders): coordinates beyond the int8 / uint8 range ----
    thin = [(1, 150), (140, 1), (3, 135), (2, 260), (130, 2), (200, 1), (1, 300), (4, 129)]
    for j, (R, C) in enumerate(thin if not ctx.quick else thin[:6]):
        if not ctx.mine(j):
            continue
        rng = ctx.sub_rng("thin", j)
        fam = ["full", "tree", "cyc3", "perc8"][j % 4] if min(R, C) > 1 else ["full", "perc8"][j % 2]
        fam, cl = ref.random_structure(R, C, rng, fam)
        if min(R, C) == 1 and fam == "perc8":
            cl = ref.full_cl(R, C)
            gap = (0, 0, int(rng.integers(C // 2, C - 1))) if R == 1 else (0, int(rng.integers(R // 2, R - 1)), 0)
            cl[(1, gap[1], gap[2]) if R == 1 else gap] = False  # one gap: two components
        g = Graph(cl)
        maze = lib.lattice(cl)
        cells = ref.all_cells(R, C)
        cache = {}
        ctx.tally("c02:side>127")
        pairs = [(cells[0], cells[-1]), (cells[-1], cells[0]), (cells[-1], cells[-1]), (cells[len(cells) // 2], cells[-1])]
        pairs += [(cells[int(a)], cells[int(b)]) for a, b in rng.integers(0, len(cells), size=(8, 2))]
        for t, (s, e) in enumerate(pairs):
            _solve(ctx, maze, g, s, e, dict(kind="thin", family=fam, shape=(R, C), s=s, e=e, j=j), cache, as_array=(0, 1, 5, 3, 4)[t % 5])  # (no int8 form: the coordinates do not fit)
            if s != e:
                ctx.nontrivial("thin", R, C, cl, s, e)
        # and through the second observation point
        from maze_dataset.maze.lattice_maze import SolvedMaze

        s, e = cells[0], cells[-1]
        case = dict(kind="thin-from_targeted", shape=(R, C), s=s, e=e)
        try:
            res, exc = SolvedMaze.from_targeted_lattice_maze(lib.targeted(cl, s, e)).solution, None
        except Exception as ex:  # noqa: BLE001
            res, exc = None, ex
        ctx.ev(); ctx.tally("c02:from-targeted")
        oracles.check_c02(ctx, g, s, e, res, exc, case, dist_cache=cache)
    # ---- (2c'') long thin mazes WITH cycles (spanning tree + 20 % extra connections), far queries end to end: distances past 127 /
    # 255 on routes that have alternatives all along (a heuristic that is only slightly off decides differently at every junction)
    n_thin = 48 if ctx.quick else 480
    for j in range(n_thin):
        if not ctx.mine(j):
            continue
        rng = ctx.sub_rng("thin-cyclic", j)
        R, C = int(rng.integers(2, 5)), int(rng.integers(131, 301))
        _, cl = ref.random_structure(R, C, rng, "tree")
        for (d, r, c) in ref.lattice_edge_slots(R, C):
            if not cl[d, r, c] and rng.random() < 0.2:
                cl[d, r, c] = True
        if j % 2:
            t = np.zeros((2, C, R), dtype=bool)
            t[0], t[1] = cl[1].T, cl[0].T
            cl, R, C = t, C, R
        g = Graph(cl)
        maze = lib.lattice(cl)
        cache = {}
        ctx.tally("c02:thin-cyclic-mazes")
        long_axis = 1 if C > R else 0
        L = max(R, C)
        def cell(along, across):
            return (across, along) if long_axis == 1 else (along, across)
        for t in range(16):
            a = cell(int(rng.integers(0, max(2, L // 10))), int(rng.integers(min(R, C))))
            b = cell(int(rng.integers(L - 3, L)), int(rng.integers(min(R, C))))
            if t % 2:
                a, b = b, a
            _solve(ctx, maze, g, a, b, dict(kind="thin-cyclic", shape=(R, C), cl=cl, s=a, e=b, j=j), cache, as_array=(0, 1, 5, 3, 4)[t % 5])
            ctx.tally("c02:thin-cyclic-far-queries")
    # ---- (2c') two-lane mazes: the optimal route starts by stepping away from the goal, the straight one pays later.
    # Optimality over distances of 50..1000 (thorough 4000) cells - an inadmissible heuristic only shows beyond a distance ~ 2/eps
    lanes = [(60, 2), (215, 2), (330, 2), (330, 3), (1000, 2), (128, 2), (260, 4)] + ([] if ctx.quick else [(2000, 2), (4000, 2), (700, 5)])
    for j, (n_cols, brk) in enumerate(lanes):
        for tr in (False, True):
            if not ctx.mine(2 * j + tr):
                continue
            cl, s, e = ref.two_lanes(n_cols, transpose=tr, breaks=brk)
            g = Graph(cl)
            maze = lib.lattice(cl)
            cache = {}
            ctx.tally("c02:two-lane-mazes")
            for (a, b) in ((s, e), (e, s)):
                _solve(ctx, maze, g, a, b, dict(kind="two-lanes", n=n_cols, breaks=brk, transposed=tr, s=a, e=b), cache)
                ctx.nontrivial("lanes", n_cols, brk, tr, a, b)
    # ---- (2e) one long-lived maze object answering more than 2**16 queries (counters / epochs / caches that wrap or fill up).
    # For each candidate period P: a full sweep (queries 1..L), cheap filler queries in one corner, and the same sweep again starting
    # exactly at query 1+P, so that a per-object counter that wraps with period P meets the marks its first sweep left behind -------
    periods = [2**16 - 1, 2**16, 2**15 - 1, 2**15, 255, 256, 1000, 2**16 + 1]
    for pi, P in enumerate(periods):
        if not ctx.mine(3 * pi + 1):
            continue
        rng = ctx.sub_rng("longlived", P)
        R, C = [(3, 3), (3, 4)][pi % 2]
        fam, cl = ref.random_structure(R, C, rng, ["ring", "cyc3", "tree"][pi % 3])
        g = Graph(cl)
        maze = lib.lattice(cl)
        cells = ref.all_cells(R, C)
        cache = {}
        allpairs = [(a, b) for a in cells for b in cells]
        corner = [cells[0], g.adj[cells[0]][0]] if g.adj[cells[0]] else [cells[0]]
        # a few far-reaching queries away from the filler corner, asked once at the very beginning ...
        far = sorted(allpairs, key=lambda ab: -len(g.bfs(ab[0])))[:1] + [(cells[-1], cells[len(cells) // 2]), (cells[len(cells) // 2], cells[-1]), (cells[-1], cells[-1])]
        q = 0
        for rep in range(2):
            for (a, b) in far:
                q += 1
                _solve(ctx, maze, g, a, b, dict(kind="long-lived", phase=f"far query, #{q} on this object", period=P, shape=(R, C), cl=cl, s=a, e=b), cache)
            # ... then only cheap queries inside one corner until exactly P queries later the same far queries are asked again:
            # whatever per-object marks the first ones left (and nothing refreshed since) meets a counter that has come round once
            while q % P != 0:
                q += 1
                a = corner[q % len(corner)]; b = corner[(q // 2) % len(corner)]
                _solve(ctx, maze, g, a, b, dict(kind="long-lived", phase=f"filler query #{q}", period=P, shape=(R, C), cl=cl, s=a, e=b), cache)
        for (a, b) in far + allpairs:
            q += 1
            _solve(ctx, maze, g, a, b, dict(kind="long-lived", phase=f"query #{q} on this object", period=P, shape=(R, C), cl=cl, s=a, e=b), cache)
        ctx.tally("c02:long-lived-objects")
    # ---- (2f) mazes of different shape whose connection arrays hold the same bytes, queried alternately --------------------------
    fams = [[(2, 3), (3, 2)], [(2, 4), (4, 2)], [(1, 4), (2, 2), (4, 1)], [(3, 4), (4, 3), (2, 6), (6, 2)], [(2, 2), (1, 4)], [(4, 4), (2, 8), (8, 2)]]
    jj = 0
    for fi, shapes in enumerate(fams):
        R0, C0 = shapes[0]
        slots0 = ref.lattice_edge_slots(R0, C0)
        masks = range(1 << len(slots0)) if len(slots0) <= 10 else [int(x) for x in ctx.sub_rng("twins", fi).integers(0, 1 << len(slots0), size=(300 if ctx.quick else 3000))]
        for mask in masks:
            jj += 1
            if not ctx.mine(jj):
                continue
            cl0 = ref.cl_from_mask(R0, C0, mask, slots0)
            twins = [((R0, C0), cl0)]
            for (R1, C1) in shapes[1:]:
                cl1 = cl0.reshape(-1).copy().reshape(2, R1, C1)      # the very same bytes, another grid shape
                if not cl1[0, -1, :].any() and not cl1[1, :, -1].any():
                    twins.append(((R1, C1), cl1))
            if len(twins) < 2 or not cl0.any():
                continue
            ctx.tally("c02:same-bytes-other-shape")
            mz = [(shp, cl, Graph(cl), lib.lattice(cl), ref.all_cells(*shp), {}) for shp, cl in twins]
            for rnd in range(2):
                for shp, cl, g, maze, cells, cache in mz:
                    pairs = [(a, b) for a in cells for b in cells]
                    if len(pairs) > 40:
                        idx = ctx.sub_rng("twinpairs", fi, mask, rnd).choice(len(pairs), size=40, replace=False)
                        pairs = [pairs[int(i)] for i in idx]
                    for (a, b) in pairs:
                        _solve(ctx, maze, g, a, b, dict(kind="same-bytes-other-shape", shapes=[t[0] for t in twins], shape=shp, cl=cl, s=a, e=b), cache)
    # ---- (2d) mazes as the generators hand them out (with generation metadata attached): every ordered pair ------------------
    from maze_dataset.generation.generators import GENERATORS_MAP

    gspecs = [("gen_percolation", dict(p=0.35)), ("gen_percolation", dict(p=0.55)), ("gen_dfs_percolation", dict(p=0.2)),
              ("gen_dfs", dict(accessible_cells=5)), ("gen_dfs", dict(max_tree_depth=3)), ("gen_dfs", dict(accessible_cells=0.4, do_forks=False)),
              ("gen_prim", dict(accessible_cells=7)), ("gen_wilson", {}), ("gen_dfs", {}), ("gen_percolation", dict(p=0.0))]
    n_gen = 60 if ctx.quick else 600
    for j in range(n_gen):
        if not ctx.mine(j):
            continue
        rng = ctx.sub_rng("genmeta", j)
        gen, kw = gspecs[j % len(gspecs)]
        R = int(rng.integers(2, 6)); C = R if j % 3 else int(rng.integers(2, 6))
        import random
        random.seed(ctx.case_seed("g", j)); np.random.seed(ctx.case_seed("g", j) % (2**32))
        try:
            gm = GENERATORS_MAP[gen](np.array([R, C]), **kw)
        except Exception:  # noqa: BLE001  (generator behaviour is C01's business)
            ctx.tally("c02:generator-failed(not judged)")
            continue
        cl = np.array(gm.connection_list, dtype=bool)
        g = Graph(cl)
        if not g.boundary_ok():
            continue
        cells = ref.all_cells(R, C)
        cache = {}
        ctx.tally("c02:generator-made-mazes")
        if g.n_components() > 1:
            ctx.tally("c02:generator-made-disconnected")
        for s in cells:
            for e in cells:
                _solve(ctx, gm, g, s, e, dict(kind="generator-made", gen=gen, kwargs=kw, shape=(R, C), cl=cl, s=s, e=e,
                                              meta_keys=sorted((gm.generation_meta or {}).keys())), cache)
                if s != e:
                    ctx.nontrivial("genmeta", cl, s, e)
    # ---- multi-route accounting on the exhaustive part (cheap sample) ------
    rng = ctx.sub_rng("multi")
    for _ in range(150):
        mask = int(rng.integers(1 << 12))
        cl = ref.cl_from_mask(3, 3, mask)
        g = Graph(cl)
        for s in ((0, 0), (0, 2), (1, 1)):
            for e in ((2, 2), (2, 0), (0, 1)):
                if s != e and g.n_shortest_paths(s, e, cap=3) >= 2:
                    maze = lib.lattice(cl)
                    _solve(ctx, maze, g, s, e, dict(kind="multi", mask=mask, s=s, e=e), None)
                    ctx.tally("c02:multi-route-pairs")
    # ---- (4) internal traffic: generate_random_path ------------------------
    from maze_dataset.generation.generators import LatticeMazeGenerators

    for j in range(6):
        if not ctx.mine(j):
            continue
        import random
        random.seed(j); np.random.seed(j)
        m = LatticeMazeGenerators.gen_dfs_percolation(np.array([6, 6]), p=0.3)
        for _ in range(10):
            with ctx.guard("C02/internal-traffic", dict(j=j), allowed=(ValueError,)):
                m.generate_random_path()
