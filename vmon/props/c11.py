"""C11 — the on-disk dataset cache never serves wrong data, whatever happened to the file."""

from __future__ import annotations

import errno
import gc
import json
import os
import shutil
import subprocess
import types
import warnings
import zipfile

import numpy as np

from .. import c04_child
from ..core import VERIF_ROOT
from ..runner import PY, shard_env

LEVEL = "fault_enumeration"
LEVEL_TEXT = ("Fault enumeration by runtime monitoring: for each configuration the cache file is put into every state of an enumerated "
              "fault model (missing, empty, truncated at byte offsets, single-byte corruptions, interrupted saves at every stream-level "
              "write in-process and at every write syscall via strace fault injection, foreign files that differ in one config field) "
              "and the real from_config is run against it; the oracle compares the returned mazes and the file left behind with a "
              "fresh generation. Held on the enumerated faults, not a proof about all damage.")
TECHNIQUE = 'runtime monitoring with fault injection: enumerated cache-file faults (missing, empty, truncation and single-byte corruption at byte offsets, OSError at every stream write in-process, SIGKILL at every write(2) via strace, foreign files differing in one config field) against the real from_config; oracle = fresh generation digests + reload of the file left behind'
RULE = ("fault classes per configuration: F0 missing, F1 empty, F2 truncation (every offset in the first/last 128 bytes + a stride "
        "elsewhere in quick, every offset in thorough), F3 single-byte corruption (xor 0xFF and a random byte, same offset sets), "
        "F4a OSError(ENOSPC) raised at the k-th write() on the zip stream for every k (persisting and transient), then gc, "
        "F4b the saver process killed by strace at its k-th write(2) on the cache file for every k, F5 the cache file of a "
        "configuration differing in exactly one field placed under the requested name; F5c two configurations differing only in the seed whose cache file names really coincide (found by scanning seeds; the name keeps five digits of the hash): the second request must raise or return its own mazes; F6 sequences of 2-3 faults (truncate / flip a byte / delete / "
        "empty / append garbage), each applied to the file the previous recovery left behind; plus the intact-cache hit. After every "
        "fault MazeDataset.from_config(cfg, local_base_path=tmp, do_download=False) must return the mazes of a fresh generation "
        "(or, for F5, raise), and the file left behind must load and hold those mazes. "
        "non-trivial & distinct = distinct (configuration, fault class, fault position) whose damaged file differs from the intact one")
ASSUMPTIONS = ["crash points are the write() calls the zip writer issues on this platform; torn writes below the syscall boundary are approximated by byte truncation",
               "zlib CRC / zipfile / zanj are trusted to detect what they detect", "serial generation is deterministic (C04)"]
NSHARDS = {"quick": 16, "thorough": 16}
THRESHOLDS = {"quick": {"c11:F0": 3, "c11:F1": 3, "c11:F2": 600, "c11:F3": 600, "c11:F4a": 30, "c11:F5": 20, "c11:F5c": 2, "c11:neighbouring-requests": 4, "c11:F6": 100, "c11:intact-hit": 3,
                        "c11:reader-raised-and-regenerated": 300, "c11:file-left-behind-checked": 1000, "c11:F5:raised": 15,
                        "c11:F5:n_mazes-foreign": 3}}
THRESHOLDS["thorough"] = {**THRESHOLDS["quick"], "c11:F2": 20000, "c11:F3": 20000}
ANCHORS = ["maze_dataset.dataset.dataset:GPTDataset.from_config", "maze_dataset.dataset.dataset:GPTDataset.save",
           "maze_dataset.dataset.dataset:GPTDataset.read"]
AMBIENT = dict(generators=False, solver=False, solved=False)

SPECS = [
    dict(key="plain", name="c11 plain", gen="gen_dfs", kwargs={}, grid_n=3, n_mazes=4, seed=11, endpoint_kwargs={}, filters=[]),
    dict(key="filtered", name="c11-filt", gen="gen_dfs_percolation", kwargs=dict(p=0.3), grid_n=4, n_mazes=9, seed=12, endpoint_kwargs=dict(endpoints_not_equal=True),
         filters=[dict(name="path_length", args=[3], kwargs={}), dict(name="truncate_count", args=[], kwargs=dict(max_count=5))]),
    dict(key="minimal", name="c11-min", gen="gen_dfs", kwargs=dict(do_forks=False), grid_n=3, n_mazes=100, seed=13, endpoint_kwargs={}, filters=[]),
]
SPECS_T = SPECS + [
    dict(key="wilson", name="c11-w", gen="gen_wilson", kwargs={}, grid_n=4, n_mazes=6, seed=14, endpoint_kwargs=dict(deadend_start=True), filters=[]),
    dict(key="perc", name="c11-p", gen="gen_percolation", kwargs=dict(p=1.0), grid_n=3, n_mazes=5, seed=15, endpoint_kwargs={}, filters=[dict(name="remove_duplicates_fast", args=[], kwargs={})]),
    dict(key="prim", name="c11-prim", gen="gen_prim", kwargs=dict(accessible_cells=0.7), grid_n=5, n_mazes=7, seed=16, endpoint_kwargs={}, filters=[]),
]
F5_FIELDS = ["name", "grid_n", "seed", "gen", "kwargs", "endpoint_kwargs", "filters", "n_mazes"]


class FaultyFile:
    """wraps the zip writer's file object; raises OSError(ENOSPC) at the k-th write()"""

    def __init__(self, f, k, persist, counter):
        self._f, self._k, self._persist, self._c = f, k, persist, counter

    def write(self, data):
        self._c["writes"] += 1
        if self._k is not None and (self._c["writes"] == self._k or (self._persist and self._c["writes"] > self._k)):
            self._c["injected"] += 1
            raise OSError(errno.ENOSPC, "No space left on device (injected)")
        return self._f.write(data)

    def __getattr__(self, name):
        return getattr(self._f, name)

    def __enter__(self):
        return self

    def __exit__(self, *a):
        return self._f.__exit__(*a)


class IoProxy(types.ModuleType):
    def __init__(self, real, target, k, persist, counter):
        super().__init__("io")
        self.__dict__["_real"] = real
        self.__dict__["_cfg"] = (os.path.realpath(target), k, persist, counter)

    def __getattr__(self, name):
        return getattr(self.__dict__["_real"], name)

    def open(self, file, mode="r", *a, **kw):
        f = self.__dict__["_real"].open(file, mode, *a, **kw)
        target, k, persist, counter = self.__dict__["_cfg"]
        # any file the save opens for writing in the cache directory (the cache file itself, or a temporary sibling that an
        # atomic-rename implementation writes first)
        if isinstance(file, (str, os.PathLike)) and os.path.dirname(os.path.realpath(file)) == os.path.dirname(target) and ("w" in mode or "+" in mode or "x" in mode):
            return FaultyFile(f, k, persist, counter)
        return f


def request(cfg, base):
    from maze_dataset import MazeDataset

    with warnings.catch_warnings():
        warnings.simplefilter("ignore")
        return MazeDataset.from_config(cfg, local_base_path=base, do_download=False)


def digests(ds):
    return c04_child.digest_mazes(ds.mazes)


def run(ctx):
    from maze_dataset import MazeDataset
    from ..probes import Probes

    specs = SPECS if ctx.quick else SPECS_T
    gen_calls = dict(n=0)
    Probes.get().on_start(MazeDataset.generate, lambda fr: gen_calls.__setitem__("n", gen_calls["n"] + 1), name="MazeDataset.generate")
    strace_ok = shutil.which("strace") is not None
    _neighbouring_requests(ctx)
    _custom_subset_over_cache(ctx)
    for si, spec in enumerate(specs):
        base = os.path.join(ctx.work, f"cache-{spec['key']}")
        os.makedirs(base, exist_ok=True)
        with warnings.catch_warnings():
            warnings.simplefilter("ignore")
            cfg0 = c04_child.make_cfg(spec)
            ref_ds = MazeDataset.from_config(c04_child.make_cfg(spec), load_local=False, save_local=False, do_download=False)
            ref_d = digests(ref_ds)
            path = os.path.join(base, cfg0.to_fname() + ".zanj")
            request(c04_child.make_cfg(spec), base)
        if not os.path.exists(path):
            # the very first request (file missing) must leave a loadable file under the requested name
            ctx.ev(); ctx.tally("c11:F0")
            ctx.violation("C11/F0/no-file-left-behind", f"after the first request for this configuration there is no {os.path.basename(path)} in the cache directory; "
                          f"it contains {sorted(os.listdir(base))}", dict(spec=spec["key"], fault="F0", note="first request of the run"))
            shutil.rmtree(base, ignore_errors=True)
            continue
        with open(path, "rb") as f:
            good = f.read()
        L = len(good)

        def judge(fault, pos, damaged: bytes | None, expect_same_as_ref=True, note=""):
            """put the file into the damaged state, request, check the answer and the file left behind"""
            case = dict(spec=spec["key"], fault=fault, pos=pos, file_len=L, note=note)
            if damaged is None:
                if os.path.exists(path):
                    os.unlink(path)
            else:
                with open(path, "wb") as f:
                    f.write(damaged)
            g0 = gen_calls["n"]
            try:
                out = request(c04_child.make_cfg(spec), base)
            except Exception as e:  # noqa: BLE001
                import traceback
                ctx.violation(f"C11/{fault}/request-raises/{type(e).__name__}", f"pos={pos}: " + traceback.format_exc()[-1200:], case)
                return
            ctx.ev(); ctx.tally(f"c11:{fault}")
            regenerated = gen_calls["n"] > g0
            if regenerated:
                ctx.tally("c11:reader-raised-and-regenerated")
            else:
                ctx.tally("c11:served-from-damaged-but-readable-file")
            d = digests(out)
            if d != ref_d:
                ctx.violation(f"C11/{fault}/wrong-data-served/" + ("after-regeneration" if regenerated else "from-damaged-file"),
                              f"pos={pos}: returned {len(d)} mazes {d[:2]}, a fresh generation gives {len(ref_d)} mazes {ref_d[:2]}", case)
            check_left_behind(case, fault)
            if damaged is None or damaged != good:
                ctx.nontrivial(spec["key"], fault, pos)

        def check_left_behind(case, fault):
            ctx.tally("c11:file-left-behind-checked")
            if not ctx.check(os.path.exists(path), f"C11/{fault}/no-file-left-behind", "", case):
                return
            try:
                with warnings.catch_warnings():
                    warnings.simplefilter("ignore")
                    back = MazeDataset.read(path)
                ctx.check(digests(back) == ref_d, f"C11/{fault}/file-left-behind-holds-other-mazes", "", case)
            except Exception as e:  # noqa: BLE001
                ctx.violation(f"C11/{fault}/file-left-behind-unloadable/{type(e).__name__}", repr(e)[:400], case)

        # offsets for F2/F3
        if ctx.quick:
            stride = 16 if L < 20000 else 64
            if spec["key"] == "minimal":
                stride *= 4
            offs = sorted(set(list(range(0, min(128, L))) + list(range(max(0, L - 128), L)) + list(range(0, L, stride))))
            if spec["key"] == "minimal":
                offs = [o for i, o in enumerate(offs) if i % 2 == 0]
        else:
            offs = list(range(L)) if spec["key"] != "minimal" else list(range(0, L, 3))
        k = 0
        # intact hit, F0, F1
        if ctx.mine(si):
            judge("intact-hit", None, good)
            judge("F0", None, None)
            judge("F1", 0, b"")
            ctx.sample(dict(spec=spec, cache_file=os.path.basename(path), file_len=L, n_offsets=len(offs), reference_digests=ref_d[:2]))
        for o in offs:
            if not ctx.mine_key(spec["key"], "off", o):
                continue
            judge("F2", o, good[:o])
            rng = ctx.sub_rng("corrupt", spec["key"], o)
            b1 = bytearray(good); b1[o] ^= 0xFF
            judge("F3", o, bytes(b1), note="xor 0xFF")
            b2 = bytearray(good); nv = int(rng.integers(256))
            if nv == good[o]:
                nv = (nv + 1) % 256
            b2[o] = nv
            judge("F3", o, bytes(b2), note=f"byte -> {nv}")
        # ---- F6: fault sequences - a second (and third) fault hits the file the previous recovery left behind -------------
        n_seq = (24 if ctx.quick else 400)
        for q in range(n_seq):
            if not ctx.mine_key(spec["key"], "F6", q):
                continue
            rng = ctx.sub_rng("seq", spec["key"], q)
            steps = []
            for _step in range(int(rng.integers(2, 4))):
                cur = open(path, "rb").read() if os.path.exists(path) else good
                kind = ["trunc", "flip", "missing", "empty", "append-garbage"][int(rng.integers(5))]
                if kind == "trunc":
                    o = int(rng.integers(0, max(1, len(cur)))); dmg = cur[:o]
                elif kind == "flip":
                    o = int(rng.integers(0, max(1, len(cur)))); b = bytearray(cur)
                    if b:
                        b[o] ^= int(rng.integers(1, 256))
                    dmg = bytes(b)
                elif kind == "missing":
                    o, dmg = None, None
                elif kind == "empty":
                    o, dmg = 0, b""
                else:
                    o = len(cur); dmg = cur + bytes(rng.integers(0, 256, size=int(rng.integers(1, 64)), dtype=np.uint8))
                steps.append((kind, o))
                judge("F6", (q, tuple(steps)), dmg, note=f"fault sequence {steps}")
            with open(path, "wb") as f:
                f.write(good)
        # ---- F4a: in-process write faults -------------------------------------------
        counter = dict(writes=0, injected=0)
        real_io = zipfile.io
        if os.path.exists(path):
            os.unlink(path)
        zipfile.io = IoProxy(real_io, path, None, False, counter)
        try:
            request(c04_child.make_cfg(spec), base)
        finally:
            zipfile.io = real_io
        n_writes = counter["writes"]
        ctx.tally(f"c11:stream-writes-per-save:{spec['key']}", n_writes if ctx.shard == 0 else 0)
        ks = list(range(1, n_writes + 1))
        if ctx.quick and len(ks) > 40:
            ks = sorted(set(ks[:12] + ks[-12:] + ks[::max(1, len(ks) // 16)]))
        for kk in ks:
            for persist in (True, False):
                if not ctx.mine_key(spec["key"], "F4a", kk, persist):
                    continue
                if os.path.exists(path):
                    os.unlink(path)
                c2 = dict(writes=0, injected=0)
                zipfile.io = IoProxy(real_io, path, kk, persist, c2)
                case = dict(spec=spec["key"], fault="F4a", k=kk, persist=persist, n_writes=n_writes)
                try:
                    try:
                        request(c04_child.make_cfg(spec), base)
                        ctx.tally("c11:F4a:save-survived-injection")
                    except OSError:
                        ctx.tally("c11:F4a:save-interrupted")
                    except Exception as e:  # noqa: BLE001
                        ctx.tally(f"c11:F4a:save-interrupted-other:{type(e).__name__}")
                finally:
                    zipfile.io = real_io
                gc.collect()  # lets ZipFile.__del__ finalise the half-written archive
                if c2["injected"] == 0:
                    ctx.tally("c11:F4a:not-injected")
                    continue
                state = open(path, "rb").read() if os.path.exists(path) else None
                judge("F4a", kk, state, note=f"persist={persist} left {None if state is None else len(state)} bytes")
        # ---- F4b: real crash of the saver process under strace ------------------------
        if strace_ok and (ctx.quick and spec["key"] == "plain" or not ctx.quick):
            _strace_crashes(ctx, spec, base, path, judge, k)
        # ---- F5: foreign files ----------------------------------------------------------
        for fi, field in enumerate(F5_FIELDS):
            if not ctx.mine_key(spec["key"], "F5", field):
                continue
            other = json.loads(json.dumps(spec))
            if field == "name":
                other["name"] = spec["name"] + "2"
            elif field == "grid_n":
                other["grid_n"] = spec["grid_n"] + 1
            elif field == "seed":
                other["seed"] = spec["seed"] + 1
            elif field == "gen":
                other["gen"] = {"gen_dfs": "gen_prim", "gen_prim": "gen_dfs", "gen_wilson": "gen_dfs", "gen_percolation": "gen_dfs_percolation",
                                "gen_dfs_percolation": "gen_percolation"}[spec["gen"]]
            elif field == "kwargs":
                # (an argument the generator of this spec accepts: gen_wilson takes none, so its foreign file differs in another field)
                if spec["gen"] == "gen_wilson":
                    continue
                other["kwargs"] = dict(spec["kwargs"], **({"accessible_cells": 5} if spec["gen"] != "gen_percolation" else {"p": 0.9}))
            elif field == "endpoint_kwargs":
                other["endpoint_kwargs"] = dict(spec["endpoint_kwargs"], deadend_end=True)
            elif field == "filters":
                other["filters"] = spec["filters"] + [dict(name="path_length", args=[2], kwargs={})]
            elif field == "n_mazes":
                other["n_mazes"] = spec["n_mazes"] + 2
            obase = os.path.join(ctx.work, f"foreign-{spec['key']}-{field}")
            os.makedirs(obase, exist_ok=True)
            case = dict(spec=spec["key"], fault="F5", field=field)
            try:
                with warnings.catch_warnings():
                    warnings.simplefilter("ignore")
                    ocfg = c04_child.make_cfg(other)
                    ods = request(c04_child.make_cfg(other), obase)
                    od = digests(ods)
                    opath = os.path.join(obase, ocfg.to_fname() + ".zanj")
                shutil.copyfile(opath, path)
            except ValueError:
                ctx.tally(f"rejected:C11/F5-foreign-generation:{spec['key']}:{field}")
                continue
            ctx.ev(); ctx.tally("c11:F5"); ctx.tally(f"c11:F5:field:{field}")
            try:
                out = request(c04_child.make_cfg(spec), base)
                d = digests(out)
                if field == "n_mazes":
                    ctx.tally("c11:F5:n_mazes-foreign")
                    # the maze count is the one field allowed to differ: the file may be used (then it must be returned faithfully) or not
                    ctx.check(d == od or d == ref_d, "C11/F5/n_mazes-foreign-file-garbled", f"returned {len(d)} mazes matching neither the file nor a fresh generation", case)
                else:
                    ctx.violation(f"C11/F5/foreign-file-served-without-error/{field}",
                                  f"cache of a config differing in {field} was accepted; returned data " + ("differs from" if d != ref_d else "happens to equal") + " a fresh generation", case)
            except ValueError:
                ctx.tally("c11:F5:raised")
                ctx.check(field != "n_mazes", "C11/F5/n_mazes-difference-rejected", "a cache differing only in the maze count raised", case)
            except Exception as e:  # noqa: BLE001
                ctx.violation(f"C11/F5/wrong-exception/{type(e).__name__}", repr(e)[:300], case)
            ctx.nontrivial(spec["key"], "F5", field)
            shutil.rmtree(obase, ignore_errors=True)
            with open(path, "wb") as f:
                f.write(good)
        # ---- F5c: a *naturally* colliding cache file: another configuration (different seed) whose to_fname() is the same
        # (the file name keeps only five digits of the hash, so seed sweeps in one directory do collide) -----------------------
        if ctx.mine_key(spec["key"], "F5c"):
            seen = {}
            pair = None
            for sd in range(100000, 100000 + (4000 if ctx.quick else 20000)):
                o = dict(json.loads(json.dumps(spec)), seed=sd)
                with warnings.catch_warnings():
                    warnings.simplefilter("ignore")
                    fn = c04_child.make_cfg(o).to_fname()
                if fn in seen:
                    pair = (seen[fn], sd)
                    break
                seen[fn] = sd
            if pair is None:
                ctx.tally("c11:F5c:no-collision-found")
            else:
                cbase = os.path.join(ctx.work, f"collide-{spec['key']}")
                os.makedirs(cbase, exist_ok=True)
                sa, sb = dict(json.loads(json.dumps(spec)), seed=pair[0]), dict(json.loads(json.dumps(spec)), seed=pair[1])
                case = dict(spec=spec["key"], fault="F5c", seeds=list(pair))
                try:
                    with warnings.catch_warnings():
                        warnings.simplefilter("ignore")
                        da = digests(request(c04_child.make_cfg(sa), cbase))
                        refb = digests(MazeDataset.from_config(c04_child.make_cfg(sb), load_local=False, save_local=False, do_download=False))
                    ctx.ev(); ctx.tally("c11:F5c")
                    try:
                        out = request(c04_child.make_cfg(sb), cbase)
                        db = digests(out)
                        ctx.check(db == refb and int(out.cfg.seed) == pair[1], "C11/F5c/colliding-file-name-served-other-configuration",
                                  f"seeds {pair} share the cache file name; the request for seed {pair[1]} returned " +
                                  ("the mazes cached for seed %d" % pair[0] if db == da else "mazes of neither configuration") + f" (cfg.seed={out.cfg.seed})", case)
                        ctx.tally("c11:F5c:regenerated-or-correct")
                    except ValueError:
                        ctx.tally("c11:F5c:raised")
                    except Exception as e:  # noqa: BLE001
                        ctx.violation(f"C11/F5c/wrong-exception/{type(e).__name__}", repr(e)[:300], case)
                    ctx.nontrivial(spec["key"], "F5c", pair)
                except Exception as e:  # noqa: BLE001
                    ctx.violation(f"C11/F5c/setup-exception/{type(e).__name__}", repr(e)[:300], case)
                shutil.rmtree(cbase, ignore_errors=True)
        shutil.rmtree(base, ignore_errors=True)


def _gen_mine_v1():
    def gen_mine(grid_shape, **kwargs):
        "a user-defined generator"
        from maze_dataset.generation.generators import LatticeMazeGenerators
        return LatticeMazeGenerators.gen_dfs(grid_shape, **kwargs)
    return gen_mine


def _gen_mine_v2():
    def gen_mine(grid_shape, **kwargs):
        "a user-defined generator"
        from maze_dataset.generation.generators import LatticeMazeGenerators
        return LatticeMazeGenerators.gen_dfs_percolation(grid_shape, p=0.6, **kwargs)
    return gen_mine


def _neighbouring_requests(ctx):
    """honest requests that are close to each other and share one cache directory: (a) maze counts whose shortened spelling in the
    file name coincides (1010 / 1040 -> '1.0K'), (b) a user-defined generator that is re-defined under the same name between two
    requests (a notebook cell edited and re-run).  Each request must return what a fresh generation of *its* configuration gives
    (or raise), and leave a loadable file with those mazes."""
    from maze_dataset import MazeDataset, MazeDatasetConfig
    from maze_dataset.generation.generators import GENERATORS_MAP

    def fresh(cfg_maker):
        with warnings.catch_warnings():
            warnings.simplefilter("ignore")
            return digests(MazeDataset.from_config(cfg_maker(), load_local=False, save_local=False, do_download=False))

    scenarios = []
    if ctx.mine(2):
        mk = lambda n: (lambda: MazeDatasetConfig(name="c11-bucket", grid_n=2, n_mazes=n, maze_ctor=GENERATORS_MAP["gen_dfs"], seed=31))  # noqa: E731
        scenarios.append(("same-count-bucket", [("1010 mazes", mk(1010)), ("1040 mazes", mk(1040)), ("1010 mazes again", mk(1010))]))
    if ctx.mine(6):
        def mk_gen(version):
            def make():
                gen = version()
                GENERATORS_MAP[gen.__name__] = gen        # (re-)registered so that stored configs can be loaded
                return MazeDatasetConfig(name="c11-mine", grid_n=4, n_mazes=10, maze_ctor=gen, seed=32)
            return make
        scenarios.append(("generator-redefined", [("first definition", mk_gen(_gen_mine_v1)), ("second definition", mk_gen(_gen_mine_v2))]))
    if ctx.mine(10) or ctx.mine(11):
        # ONE configuration object used for several requests, its maze count (or seed) assigned in place in between - after the object
        # has been used (file name, summary, an earlier request); a fresh copy of its current state says what each request must return
        import copy as _copy
        box = {}

        def mk_reused(field, value):
            def make():
                if "cfg" not in box:
                    box["cfg"] = MazeDatasetConfig(name="c11-reused", grid_n=3, n_mazes=6, maze_ctor=GENERATORS_MAP["gen_dfs"], seed=33)
                    box["cfg"].to_fname(); box["cfg"].summary()
                setattr(box["cfg"], field, value)
                return box["cfg"]
            return make
        scenarios.append(("one-config-object-reused", [("6 mazes", mk_reused("n_mazes", 6)), ("15 mazes, same object", mk_reused("n_mazes", 15)), ("6 mazes again", mk_reused("n_mazes", 6)),
                                                        ("seed changed in place", mk_reused("seed", 34)), ("9 mazes", mk_reused("n_mazes", 9))]))
    for tag, steps in scenarios:
        base = os.path.join(ctx.work, f"neigh-{tag}")
        os.makedirs(base, exist_ok=True)
        try:
            for label, maker in steps:
                case = dict(fault="neighbouring-requests", scenario=tag, step=label)
                try:
                    ref_d = fresh(maker)
                    out = request(maker(), base)
                    d = digests(out)
                    ctx.ev(); ctx.tally("c11:neighbouring-requests")
                    ctx.check(d == ref_d, f"C11/neighbouring-requests/{tag}/other-configurations-data-served",
                              f"{label}: returned {len(d)} mazes {d[:2]}; a fresh generation of this configuration gives {len(ref_d)} mazes {ref_d[:2]}", case)
                    with warnings.catch_warnings():
                        warnings.simplefilter("ignore")
                        fpath = os.path.join(base, maker().to_fname() + ".zanj")
                        ok_file = os.path.exists(fpath) and digests(MazeDataset.read(fpath)) == ref_d
                    ctx.check(ok_file, f"C11/neighbouring-requests/{tag}/file-left-behind-missing-or-other-mazes", f"{label}: {os.path.basename(fpath)}; directory holds {sorted(os.listdir(base))}", case)
                except ValueError as e:
                    ctx.tally("c11:neighbouring-requests:raised")
                    ctx.check(tag != "same-count-bucket" or True, "unused", "", case)
                except Exception as e:  # noqa: BLE001
                    import traceback
                    ctx.violation(f"C11/neighbouring-requests/{tag}/exception/{type(e).__name__}", traceback.format_exc()[-1000:], case)
        finally:
            GENERATORS_MAP.pop("gen_mine", None)
            shutil.rmtree(base, ignore_errors=True)


def _is_long(m, min_len=4):
    return len(m.solution) >= min_len


def _custom_subset_over_cache(ctx):
    """a subset of the cached dataset, selected with a user predicate (custom_maze_filter) and saved back over the cache file: the next
    request for the unfiltered configuration must still get what a fresh generation gives (or an error), and leave a loadable file"""
    from maze_dataset import MazeDataset, MazeDatasetConfig
    from maze_dataset.generation.generators import GENERATORS_MAP

    if not ctx.mine(14):
        return
    base = os.path.join(ctx.work, "custom-subset")
    os.makedirs(base, exist_ok=True)
    try:
        for t, (g_n, n) in enumerate([(4, 12), (5, 9), (3, 20)]):
            mk = lambda: MazeDatasetConfig(name=f"c11-cs{t}", grid_n=g_n, n_mazes=n, maze_ctor=GENERATORS_MAP["gen_dfs"], seed=60 + t)  # noqa: E731
            case = dict(fault="custom-filtered-subset-saved-over-cache", grid_n=g_n, n_mazes=n)
            with warnings.catch_warnings():
                warnings.simplefilter("ignore")
                ref_d = digests(MazeDataset.from_config(mk(), load_local=False, save_local=False, do_download=False))
                out = request(mk(), base)
                fpath = os.path.join(base, mk().to_fname() + ".zanj")
                try:
                    sub = out.custom_maze_filter(_is_long, min_len=4)
                    sub.save(fpath)
                except Exception as e:  # noqa: BLE001
                    ctx.tally(f"c11:custom-subset-not-writable:{type(e).__name__}(not judged)")
                    continue
                if len(sub) == len(out):
                    ctx.tally("c11:custom-subset-kept-everything(not judged)")
                    continue
                try:
                    got = digests(request(mk(), base))
                except ValueError:
                    ctx.tally("c11:custom-subset:request-raised")
                    continue
                except Exception as e:  # noqa: BLE001
                    ctx.violation(f"C11/custom-subset/exception/{type(e).__name__}", repr(e)[:300], case)
                    continue
                ctx.ev(); ctx.tally("c11:custom-subset-requests")
                ctx.check(got == ref_d, "C11/foreign-file/custom-filter-record/other-data-served",
                          f"the cache file held a custom-filtered subset ({len(sub)} of {n} mazes); the request for the unfiltered configuration returned {len(got)} mazes", case)
                try:
                    left = digests(MazeDataset.read(fpath))
                except Exception:  # noqa: BLE001
                    left = None
                ctx.check(left == ref_d, "C11/foreign-file/custom-filter-record/file-left-behind-not-the-requested-data", f"file holds {None if left is None else len(left)} mazes", case)
    finally:
        shutil.rmtree(base, ignore_errors=True)


def _strace_crashes(ctx, spec, base, path, judge, k0):
    """F4b: the saver runs in its own process under strace; the k-th write(2) on the cache file kills it"""
    sbase = base  # same cache directory the requests use
    env = shard_env()

    def saver(extra):
        if os.path.exists(path):
            os.unlink(path)
        cmd = ["strace", "-f", "-qq", "-P", path, "-e", "trace=write", *extra, PY, "-m", "vmon.c11_saver", sbase]
        return subprocess.run(cmd, input=json.dumps(spec), capture_output=True, text=True, env=env, cwd=VERIF_ROOT, timeout=600)

    if ctx.mine_key(spec["key"], "F4b", "count"):
        p = saver(["-o", os.path.join(ctx.work, "strace.count")])
        n = 0
        try:
            with open(os.path.join(ctx.work, "strace.count")) as f:
                n = sum(1 for ln in f if "write(" in ln)
        except OSError:
            pass
        ctx.tally("c11:F4b:write-syscalls-per-save", n)
        if p.returncode != 0 or "SAVED" not in p.stdout or n == 0:
            ctx.tally("c11:F4b:unavailable")
            ctx.note(f"strace sub-class unavailable: rc={p.returncode} n={n} {p.stderr[-300:]}")
            return
    # every shard assumes at most 8 write syscalls (5 observed); k beyond the real count simply does not inject
    for kk in range(1, 9):
        if not ctx.mine_key(spec["key"], "F4b", kk):
            continue
        try:
            p = saver(["-e", f"inject=write:signal=KILL:when={kk}"])
        except subprocess.TimeoutExpired:
            ctx.tally("c11:F4b:timeout")
            continue
        if p.returncode in (137, -9) or "SAVED" not in p.stdout:
            ctx.tally("c11:F4b:killed")
            state = open(path, "rb").read() if os.path.exists(path) else None
            ctx.tally(f"c11:F4b:bytes-left:{kk}", 0 if state is None else len(state))
            judge("F4b", kk, state, note=f"saver killed at write #{kk}; {None if state is None else len(state)} bytes left")
        else:
            ctx.tally("c11:F4b:not-injected")
