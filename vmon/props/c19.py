"""C19 — Wilson's generator samples spanning trees uniformly."""

from __future__ import annotations

import numpy as np

from .. import ref
from ..core import call_watchdog
from ..ref import Graph

LEVEL = "exploration"
TECHNIQUE = 'runtime monitoring: statistical monitor (pooled Pearson chi-square against the enumerated spanning trees at a 1e-9 tail; per-edge inclusion frequencies against effective resistances on larger grids) plus an online trace checker replaying every random decision of gen_wilson in a loop-erased-random-walk reference model'
RULE = ("statistical layer: N = 1000*k (quick) / 4000*k (thorough; 2x2: 10^6 draws, 2x3 and 3x2: 6*10^5) draws of gen_wilson on grids whose k spanning trees are enumerated "
        "by the harness (2x2:4, 2x3/3x2:15, 2x4/4x2:56, 3x3:192; thorough also 3x4:2415, cross-checked with Kirchhoff's "
        "determinant), numpy's global RNG seeded per block from VERIF_SEED and every 4th block entered with an already-consumed "
        "stream; pooled over all shards: every output must be one of the k trees, every tree must appear, and Pearson's chi-square "
        "against the uniform law must not exceed the 1-1e-9 quantile (exact tail via mpmath). trace layer: wrappers on "
        "np.random.choice / get_neighbors_in_bounds / _random_start_coord record every random decision of a draw and a reference "
        "loop-erased-random-walk model replays them (walk starts among unvisited cells, each step uniform over exactly the "
        "in-bounds neighbours of the model's current cell, returned tree equals the model's tree). marginal layer: on grids too large "
        "to enumerate (4x4, 5x5, 3x6, 6x3, 1x6, 7x2, 8x8; thorough also 12x12) every draw must be a spanning tree and each edge's inclusion "
        "count must lie within 7 standard deviations of N times its effective resistance (Kirchhoff: the inclusion probability under the uniform law). "
        "non-trivial & distinct = distinct (grid, tree) outcomes observed on grids with >= 15 trees")
ASSUMPTIONS = ["numpy's global RNG is uniform", "a bias below the detectable effect size at the stated N is invisible to the chi-square layer",
               "the trace layer applies while gen_wilson draws through np.random.choice and get_neighbors_in_bounds (otherwise reported as not observed)"]
NSHARDS = {"quick": 16, "thorough": 16}
GRIDS_Q = [(2, 2), (2, 3), (3, 2), (2, 4), (4, 2), (3, 3)]
GRIDS_T = GRIDS_Q + [(3, 4)]
# marginal layer: grids too large to enumerate; (shape, draws quick, draws thorough)
GRIDS_M = [((4, 4), 40000, 200000), ((5, 5), 40000, 200000), ((3, 6), 30000, 120000), ((6, 3), 30000, 120000), ((1, 6), 2000, 10000),
           ((7, 2), 8000, 80000), ((8, 8), 4000, 60000), ((12, 12), 0, 20000)]
Z_MAX = 7.0
THRESHOLDS = {"quick": {"c19:draws": 300000, "c19:marginal-draws": 150000, "c19:trace:draws": 500, "c19:trace:draws-with-injected-bouncing-prefix?c19:trace:held": 100,
                        "c19:consumed-stream-blocks": 10}}
THRESHOLDS["thorough"] = {**THRESHOLDS["quick"], "c19:draws": 3000000}
ANCHORS = ["maze_dataset.generation.generators:LatticeMazeGenerators.gen_wilson",
           "maze_dataset.generation.generators:get_neighbors_in_bounds"]
AMBIENT = dict(generators=False, solver=False, solved=False)
BLOCK = 500
DEAD: set = set()  # grids on which a draw hit the per-call watchdog in this shard (no further draws there: the run is inconclusive anyway)
TAIL = 1e-9


def n_draws(tier, k, shape):
    if tier == "quick":
        return 1000 * k
    if shape == (2, 2):
        return 250000 * k   # 10^6 draws: biases of about one percent per tree
    if shape in ((2, 3), (3, 2)):
        return 40000 * k
    return 200 * k if shape == (3, 4) else 4000 * k


def run(ctx):
    from maze_dataset.generation import generators as G

    grids = GRIDS_Q if ctx.quick else GRIDS_T
    gen = G.LatticeMazeGenerators.gen_wilson
    b = 0
    shared_shape = np.array([1, 1])
    for (R, C) in grids:
        slots = ref.lattice_edge_slots(R, C)
        weights = np.array([1 << i for i in range(len(slots))], dtype=np.int64)
        sl = tuple(np.array(x) for x in zip(*slots))
        trees = set(ref.spanning_tree_masks(R, C))
        k = len(trees)
        total = n_draws(ctx.tier, k, (R, C))
        nblocks = -(-total // BLOCK)
        for blk in range(nblocks):
            b += 1
            if not ctx.mine(b) or (R, C) in DEAD:
                continue
            np.random.seed(ctx.case_seed("blk", R, C, blk) % (2**32))
            if blk % 4 == 3:
                np.random.rand(int(ctx.case_seed("consume", R, C, blk) % 97) + 1)
                ctx.tally("c19:consumed-stream-blocks")
            if ctx.shard % 2:
                # one shape array for the whole sweep, grown in place from grid to grid (half of the shards)
                shared_shape[0] = R; shared_shape[1] = C
                shape = shared_shape
                ctx.tally("c19:blocks-with-one-shape-array-updated-in-place")
            else:
                shape = np.array([R, C])
            cnt: dict[int, int] = {}
            m = min(BLOCK, total - blk * BLOCK)
            for _ in range(m):
                cl = None
                try:
                    with call_watchdog(ctx, 20, f"C19/gen_wilson {R}x{C}"):
                        cl = gen(shape).connection_list
                    if cl is None:
                        DEAD.add((R, C))  # watchdog fired: inconclusive, reported by the runner; no further draws on this grid in this shard
                        break
                except Exception as e:  # noqa: BLE001
                    ctx.violation(f"C19/gen_wilson-raises/{type(e).__name__}", repr(e)[:300], dict(shape=(R, C), block=blk))
                    break
                mask = int((cl[sl].astype(np.int64) * weights).sum())
                cnt[mask] = cnt.get(mask, 0) + 1
                if cl[0, -1, :].any() or cl[1, :, -1].any():
                    ctx.violation("C19/output-not-a-spanning-tree", f"edge leaves the grid: {cl.astype(int).tolist()}", dict(shape=(R, C), block=blk))
            ctx.ev(m); ctx.tally("c19:draws", m)
            for mask, c in cnt.items():
                ctx.tally(f"c19:n:{R}x{C}:{mask}", c)
                if mask not in trees:
                    ctx.violation("C19/output-not-a-spanning-tree", f"{R}x{C} mask {mask}: {ref.cl_from_mask(R, C, mask).astype(int).tolist()}",
                                  dict(shape=(R, C), mask=mask, block=blk))
                elif k >= 15:
                    ctx.nontrivial(R, C, mask)
            if blk == 0 and len(ctx.samples) < 3:
                ctx.sample(dict(shape=(R, C), block=blk, draws=m, distinct_trees_in_block=len(cnt), most_common=sorted(cnt.items(), key=lambda x: -x[1])[:3]))
    _marginals(ctx, b)
    _trace(ctx, 60 if ctx.quick else 600)


def _marginals(ctx, b):
    """edge-inclusion frequencies on grids too large to enumerate; judged in finalize() against the effective resistances"""
    from maze_dataset.generation import generators as G

    gen = G.LatticeMazeGenerators.gen_wilson
    for (R, C), nq, nt in GRIDS_M:
        total = nq if ctx.quick else nt
        slots = ref.lattice_edge_slots(R, C)
        sl = tuple(np.array(x) for x in zip(*slots))
        for blk in range(-(-total // BLOCK)):
            b += 1
            if not ctx.mine(b) or (R, C) in DEAD:
                continue
            np.random.seed(ctx.case_seed("mblk", R, C, blk) % (2**32))
            if blk % 4 == 1:
                np.random.rand(int(ctx.case_seed("mconsume", R, C, blk) % 97) + 1)
            m = min(BLOCK, total - blk * BLOCK)
            acc = np.zeros(len(slots), dtype=np.int64)
            done = 0
            for _ in range(m):
                cl = None
                try:
                    with call_watchdog(ctx, 30, f"C19/gen_wilson {R}x{C}"):
                        cl = gen(np.array([R, C])).connection_list
                    if cl is None:
                        DEAD.add((R, C))
                        break
                except Exception as e:  # noqa: BLE001
                    ctx.violation(f"C19/gen_wilson-raises/{type(e).__name__}", repr(e)[:300], dict(shape=(R, C), block=blk))
                    break
                if cl.shape != (2, R, C) or int(cl.sum()) != R * C - 1 or int(cl[sl].sum()) != R * C - 1 or not Graph(cl).connected():
                    ctx.violation("C19/output-not-a-spanning-tree", f"{R}x{C}: {np.asarray(cl).astype(int).tolist()}", dict(shape=(R, C), block=blk))
                    continue
                acc += cl[sl]
                done += 1
            ctx.ev(done); ctx.tally("c19:marginal-draws", done); ctx.tally(f"c19:mN:{R}x{C}", done)
            for i, v in enumerate(acc):
                ctx.tally(f"c19:m:{R}x{C}:{i}", int(v))


def edge_probabilities(R, C):
    """P(edge in a uniform spanning tree) = effective resistance between its ends (Kirchhoff); Laplacian pseudo-inverse"""
    n = R * C
    L = np.zeros((n, n))
    slots = ref.lattice_edge_slots(R, C)
    ends = []
    for d, r, c in slots:
        a = r * C + c
        bb = (r + 1) * C + c if d == 0 else r * C + c + 1
        ends.append((a, bb))
        L[a, a] += 1; L[bb, bb] += 1; L[a, bb] -= 1; L[bb, a] -= 1
    P = np.linalg.pinv(L)
    return slots, [float(P[a, a] + P[bb, bb] - 2 * P[a, bb]) for a, bb in ends]


def _trace(ctx, n_per_shard):
    """online trace checker: record every random decision of a draw, replay with a loop-erased random walk model"""
    from maze_dataset.generation import generators as G

    events: list = []
    real_choice = np.random.choice
    real_nb = getattr(G, "get_neighbors_in_bounds", None)
    real_start = getattr(G, "_random_start_coord", None)
    if real_nb is None:
        ctx.tally("c19:trace:not-observed", n_per_shard)
        ctx.note("trace layer not applicable: generators.get_neighbors_in_bounds does not exist")
        return
    state = dict(on=False, bounce=0, prev=None, cur=None, nbs=None)

    def w_choice(a, *args, **kw):
        r = real_choice(a, *args, **kw)
        if state["on"]:
            # hostile but legal random outcomes ("for every seed of the underlying RNG"): for the first `bounce` steps of a draw
            # the step goes straight back to the cell the walk just came from, whenever that is one of the candidates - a long
            # run of two-cell loops that are all erased.  By the Markov property what follows is still Wilson's algorithm from
            # scratch, so every such draw must replay in the loop-erased-walk model like any other.
            if state["bounce"] > 0 and isinstance(a, (int, np.integer)) and not args and not kw and state["nbs"] is not None \
                    and int(a) == len(state["nbs"]) and state["prev"] in state["nbs"]:
                r = type(r)(state["nbs"].index(state["prev"])) if np.ndim(r) == 0 else r
                state["bounce"] -= 1
                state["injected"] = state.get("injected", 0) + 1
            if isinstance(a, (int, np.integer)) and state["nbs"] is not None and int(a) == len(state["nbs"]) and np.ndim(r) == 0:
                state["prev"] = state["cur"]
            events.append(("choice", a if isinstance(a, (int, np.integer)) else "array", bool(args or kw), int(r) if np.ndim(r) == 0 else None))
        return r

    def w_nb(coord, grid_shape):
        r = real_nb(coord, grid_shape)
        if state["on"]:
            state["cur"] = tuple(int(x) for x in coord)
            state["nbs"] = [tuple(int(x) for x in c) for c in r]
            events.append(("neigh", state["cur"], list(state["nbs"])))
        return r

    def w_start(grid_shape, start_coord=None, *a, **kw):
        r = real_start(grid_shape, start_coord, *a, **kw)
        if state["on"]:
            events.append(("start", tuple(int(x) for x in r)))
        return r

    np.random.choice = w_choice
    G.get_neighbors_in_bounds = w_nb
    if real_start is not None:
        G._random_start_coord = w_start
    try:
        for t in range(n_per_shard):
            rng = ctx.sub_rng("trace", ctx.shard, t)
            R, C = [(3, 3), (4, 4), (3, 5), (5, 3), (2, 6), (6, 6)][t % 6]
            if (R, C) in DEAD:
                continue
            np.random.seed(int(rng.integers(1 << 32)))
            events.clear()
            state.update(bounce=(0 if t % 3 else int([20, 60, 150, 400, 1200][(t // 3) % 5])), prev=None, cur=None, nbs=None, injected=0)
            state["on"] = True
            maze = None
            try:
                with call_watchdog(ctx, 30, f"C19/gen_wilson {R}x{C}"):
                    maze = G.LatticeMazeGenerators.gen_wilson(np.array([R, C]))
            finally:
                state["on"] = False
            if maze is None:
                DEAD.add((R, C))
                continue
            ctx.tally("c19:trace:draws")
            if state.get("injected"):
                ctx.tally("c19:trace:draws-with-injected-bouncing-prefix")
                ctx.tally("c19:trace:injected-decisions", state["injected"])
            _replay(ctx, list(events), maze.connection_list, R, C, dict(shape=(R, C), t=t, shard=ctx.shard))
    finally:
        np.random.choice = real_choice
        G.get_neighbors_in_bounds = real_nb
        if real_start is not None:
            G._random_start_coord = real_start


def _replay(ctx, ev, cl, R, C, case):
    """replay the recorded decisions with a loop-erased-random-walk model.

    Soundness: only *semantic* divergences are violations (a walk starting on a visited cell, a step whose candidates are not
    exactly the lattice neighbours of the model's current cell, the implementation continuing from another cell than the
    loop-erased walk, a returned tree different from the model's).  Anything that merely means the hook points are used
    differently (missing / extra events, a choice with extra arguments, another way of picking the walk start) is
    'not observed' and leaves the verdict to the statistical layer - Wilson's theorem holds for any rule that picks the next root
    among the unvisited cells."""
    if not ev or not any(e[0] == "neigh" for e in ev) or not any(e[0] == "choice" for e in ev) or ev[0][0] != "start":
        ctx.tally("c19:trace:not-observed")
        return
    g_full = Graph(ref.full_cl(R, C))
    pos = [1]

    def peek():
        return ev[pos[0]] if pos[0] < len(ev) else None

    def take():
        e = peek()
        pos[0] += 1
        return e

    try:
        root = ev[0][1]
        if not g_full.in_grid(root):
            raise _Div(f"root {root} outside the grid")
        visited = {root}
        tree = ref.empty_cl(R, C)
        while len(visited) < R * C:
            # whatever picks the walk start: skip its draws, the next neighbour query tells where the walk begins
            while peek() is not None and peek()[0] == "choice":
                take(); ctx.tally("c19:trace:decisions")
            en = peek()
            if en is None or en[0] != "neigh":
                raise _Unobserved(f"no neighbour query at the start of a walk: {en}")
            cur = en[1]
            if cur in visited or not g_full.in_grid(cur):
                raise _Div(f"a walk starts at {cur}, which is not an unvisited cell of the grid")
            path = [cur]
            while cur not in visited:
                en = take()
                if en is not None and en[0] == "choice":
                    # no neighbour query for the walk's current cell although the walk has not reached the tree yet.  If what follows
                    # is a neighbour query for *another* cell, the walk was abandoned and a new one begun - Wilson's walks run until
                    # they hit the tree, whatever rule picks their starting cells; anything else is merely another use of the hooks
                    k = pos[0]
                    while k < len(ev) and ev[k][0] == "choice":
                        k += 1
                    nxt = ev[k] if k < len(ev) else None
                    if nxt is not None and nxt[0] == "neigh" and nxt[1] != cur:
                        raise _Div(f"the walk at {cur} (path {path}) was abandoned before reaching the tree; the implementation goes on from {nxt[1]}")
                    raise _Unobserved(f"expected a neighbour query, got {en}")
                if en is None or en[0] != "neigh":
                    raise _Unobserved(f"expected a neighbour query, got {en}")
                if en[1] != cur:
                    raise _Div(f"implementation continues the walk from {en[1]}, the loop-erased walk is at {cur} (path {path})")
                if sorted(en[2]) != sorted(g_full.adj[cur]) or len(en[2]) != len(set(en[2])):
                    raise _Div(f"step candidates of {cur} are {en[2]}, the lattice neighbours are {sorted(g_full.adj[cur])}")
                ec = take()
                if ec is None or ec[0] != "choice" or ec[2] or ec[1] != len(en[2]) or ec[3] is None:
                    raise _Unobserved(f"step not drawn by a plain choice over the {len(en[2])} candidates: {ec}")
                ctx.tally("c19:trace:decisions")
                nc = en[2][ec[3]]
                if nc in path:
                    path = path[: path.index(nc) + 1]
                    ctx.tally("c19:trace:loops-erased")
                else:
                    path.append(nc)
                cur = path[-1]
            for a, b in zip(path[:-1], path[1:]):
                tree[ref.slot_of(a, b)] = True
                visited.add(a)
        if peek() is not None:
            raise _Unobserved("further events after the model's tree was complete")
        if not np.array_equal(tree, cl):
            raise _Div(f"returned tree differs from the loop-erased-walk model's tree: model {tree.astype(int).tolist()} returned {np.asarray(cl).astype(int).tolist()}")
        ctx.tally("c19:trace:held")
    except _Unobserved as u:
        ctx.tally("c19:trace:not-observed")
        ctx.note(f"trace layer not applicable to this draw: {u}")
    except _Div as d:
        ctx.violation("C19/trace/not-a-loop-erased-random-walk", str(d), case)


class _Div(Exception):
    pass


class _Unobserved(Exception):
    pass


def finalize(m, tier, seed):
    """pooled chi-square over all shards"""
    import mpmath

    viol, inconc, cov = [], [], {}
    grids = GRIDS_Q if tier == "quick" else GRIDS_T
    table = {}
    for key, v in m["tallies"].items():
        if key.startswith("c19:n:"):
            _, _, shp, mask = key.split(":")
            table.setdefault(shp, {})[int(mask)] = v
    stats = {}
    for (R, C) in grids:
        shp = f"{R}x{C}"
        trees = ref.spanning_tree_masks(R, C)
        k = len(trees)
        if k != ref.kirchhoff_count(R, C):
            inconc.append(f"harness tree enumeration for {shp} ({k}) disagrees with Kirchhoff ({ref.kirchhoff_count(R, C)})")
            continue
        counts = table.get(shp, {})
        N = sum(counts.values())
        want = n_draws(tier, k, (R, C))
        if N < want:
            inconc.append(f"{shp}: only {N} of {want} draws observed")
            continue
        unseen = [t for t in trees if counts.get(t, 0) == 0]
        exp = N / k
        chi2 = sum((counts.get(t, 0) - exp) ** 2 / exp for t in trees)
        df = k - 1
        pval = float(mpmath.gammainc(df / 2, chi2 / 2, mpmath.inf, regularized=True))
        stats[shp] = dict(trees=k, draws=N, chi2=round(chi2, 3), df=df, p_value=pval, unseen=len(unseen),
                          min_count=min(counts.get(t, 0) for t in trees), max_count=max(counts.get(t, 0) for t in trees), expected=round(exp, 1))
        if unseen:
            viol.append(dict(mechanism="C19/spanning-tree-never-drawn", detail=f"{shp}: {len(unseen)} of {k} trees never drawn in {N} draws, e.g. masks {unseen[:5]}",
                             case=dict(shape=shp, unseen=unseen[:20])))
        if pval < TAIL:
            worst = sorted(trees, key=lambda t: -abs(counts.get(t, 0) - exp))[:5]
            viol.append(dict(mechanism="C19/frequencies-not-uniform", detail=f"{shp}: chi2={chi2:.1f} df={df} p={pval:.3e} over {N} draws; "
                             f"expected {exp:.1f} per tree, extremes {[(t, counts.get(t, 0)) for t in worst]}", case=dict(shape=shp, stats=stats[shp])))
    cov["chi_square"] = stats
    # marginal layer
    mstats = {}
    for (R, C), nq, nt in GRIDS_M:
        want = nq if tier == "quick" else nt
        if want == 0:
            continue
        shp = f"{R}x{C}"
        N = m["tallies"].get(f"c19:mN:{shp}", 0)
        if N < want:
            if not any(k.startswith("C19/output-not-a-spanning-tree") or k.startswith("C19/gen_wilson-raises") for k in m["viol_counts"]):
                inconc.append(f"{shp}: only {N} of {want} marginal draws observed")
            continue
        slots, probs = edge_probabilities(R, C)
        if abs(sum(probs) - (R * C - 1)) > 1e-6:
            inconc.append(f"{shp}: effective resistances do not sum to n-1 ({sum(probs)})")
            continue
        worst = (0.0, None)
        for i, p in enumerate(probs):
            cnt = m["tallies"].get(f"c19:m:{shp}:{i}", 0)
            var = N * p * (1 - p)
            if var < 1e-9:
                z = 0.0 if abs(cnt - N * p) < 0.5 else float("inf")
            else:
                z = (cnt - N * p) / var ** 0.5
            if abs(z) > abs(worst[0]):
                worst = (z, dict(edge=list(slots[i]), observed=cnt, expected=round(N * p, 1), p=round(p, 5)))
        mstats[shp] = dict(draws=N, edges=len(probs), max_abs_z=round(abs(worst[0]), 3) if worst[0] != float("inf") else "inf", at=worst[1])
        if abs(worst[0]) > Z_MAX:
            viol.append(dict(mechanism="C19/edge-frequencies-not-uniform-spanning-tree", detail=f"{shp}: edge {worst[1]} is {worst[0]:.1f} standard deviations from the "
                             f"inclusion probability of a uniform spanning tree (effective resistance) over {N} draws", case=dict(shape=shp, worst=worst[1])))
    cov["edge_marginals"] = mstats
    cov["edge_marginals_rule"] = f"per-edge inclusion count vs N*R_eff(edge), violation iff |z| > {Z_MAX} (normal tail 2.6e-12 per edge)"
    cov["tail_probability"] = TAIL
    trace = {k: v for k, v in m["tallies"].items() if k.startswith("c19:trace:")}
    cov["trace_layer"] = trace
    if trace.get("c19:trace:not-observed", 0) and not trace.get("c19:trace:held", 0):
        cov["trace_layer_status"] = "not observed (hook points absent); the statistical layer alone decides"
    # keep the evidence readable: drop the per-tree counters from the tallies
    for key in [k for k in m["tallies"] if k.startswith("c19:n:") or k.startswith("c19:m:")]:
        del m["tallies"][key]
    return dict(violations=viol, inconclusive=inconc, coverage=cov)
