"""C07 — legacy tokenization round-trips and agrees with its modular equivalent."""

from __future__ import annotations

import warnings

import numpy as np

from .. import lib, ref
from ..ref import Graph

OPTIMISED_LAST_SHARD = True  # the last shard runs under python -O (no assert statements)
LEVEL = "exploration"
TECHNIQUE = 'runtime monitoring: round-trip and differential monitor (legacy vs modular-equivalent streams compared outside the adjacency region and as edge sets inside it) over generated mazes of all kinds; dataset-level tokenization compared per maze'
RULE = ("3 legacy modes x max_grid_size {None, n, 50} and their modular equivalents (from_legacy) x mazes of all three kinds built by "
        "the harness (spanning trees and tree+percolation, so every row/column index occurs in a connection), grid 2..20 incl. "
        "multi-digit coordinates, one-cell and two-cell solutions: cls.from_tokens(maze.as_tokens(tok), tok) for the token list and "
        "for the space-joined string must return the same kind with identical connection list, start, end, solution; legacy and "
        "modular streams must be equal outside the adjacency region and describe the same edge set inside it (own parser); "
        "MazeDataset.as_tokens must equal per-maze tokenization in order for limit in {None,0,1,n} and both join options. "
        "non-trivial & distinct = distinct (tokenizer, kind, connection structure, ends) round trips on grids >= 3x3")
ASSUMPTIONS = ["mazes in which every row and column index occurs in some connection (the documented precondition of from_adj_list)",
               "adjacency order/orientation is random; compared as sets"]
NSHARDS = {"quick": 16, "thorough": 16}
MODES = ["AOTP_UT_rasterized", "AOTP_UT_uniform", "AOTP_CTT_indexed"]
KINDS = ["LatticeMaze", "TargetedLatticeMaze", "SolvedMaze"]
THRESHOLDS = {"quick": {"c07:rt:via-other-class": 1500, "c07:retokenized-after-in-place-edit": 25, "c07:dataset-config-count-differs-from-list": 20, **{f"c07:rt:{m}:{k}:{f}": 20 for m in MODES for k in KINDS for f in ("list", "str")},
                        **{f"c07:rt:modular:{m}:{k}": 20 for m in MODES for k in KINDS},
                        "c07:grid>=11": 50, "c07:one-cell-solution": 20, "c07:two-cell-solution": 20, "c07:legacy-vs-modular": 400,
                        "c07:dataset-as_tokens": 100, "c07:mgs:None": 100, "c07:mgs:n": 100, "c07:mgs:50": 100}}
THRESHOLDS["thorough"] = dict(THRESHOLDS["quick"])
ANCHORS = ["maze_dataset.maze.lattice_maze:LatticeMaze._as_tokens", "maze_dataset.maze.lattice_maze:LatticeMaze._as_coords_and_special_AOTP",
           "maze_dataset.maze.lattice_maze:LatticeMaze.from_tokens", "maze_dataset.maze.lattice_maze:LatticeMaze._from_tokens_AOTP",
           "maze_dataset.maze.lattice_maze:LatticeMaze.from_adj_list", "maze_dataset.token_utils:tokens_between",
           "maze_dataset.token_utils:strings_to_coords", "maze_dataset.token_utils:coords_string_split_UT",
           "maze_dataset.token_utils:coord_str_to_tuple", "maze_dataset.token_utils:str_is_coord",
           "maze_dataset.token_utils:get_path_tokens",
           "maze_dataset.tokenization.maze_tokenizer:MazeTokenizerModular.from_legacy",
           "maze_dataset.tokenization.maze_tokenizer:MazeTokenizerModular.is_legacy_equivalent",
           "maze_dataset.dataset.maze_dataset:MazeDataset.as_tokens"]
AMBIENT = dict(generators=False, solver=False, solved=False)


def parse_stream(tokens, ctt: bool):
    """own parser: returns (edge set, rest-of-stream with the adjacency body removed)"""
    a0 = tokens.index("<ADJLIST_START>"); a1 = tokens.index("<ADJLIST_END>")
    body = tokens[a0 + 1:a1]
    rest = tokens[:a0 + 1] + tokens[a1:]
    edges = []
    cur = []
    for t in body:
        if t == ";":
            edges.append(cur); cur = []
        else:
            cur.append(t)
    if cur:
        edges.append(cur)
    out = []
    for e in edges:
        if ctt:
            # ( r , c ) <--> ( r , c )
            if len(e) != 11 or e[5] != "<-->":
                raise ValueError(f"bad edge {e}")
            a = (int(e[1]), int(e[3])); b = (int(e[7]), int(e[9]))
        else:
            if len(e) != 3 or e[1] != "<-->":
                raise ValueError(f"bad edge {e}")
            a = tuple(int(x) for x in e[0].strip("()").split(",")); b = tuple(int(x) for x in e[2].strip("()").split(","))
        out.append(frozenset((a, b)))
    return out, rest


def build(rng, n, kind_idx, mode_hint):
    fam = ["tree", "cyc3", "cycN"][int(rng.integers(3))]
    _, cl = ref.random_structure(n, n, rng, fam)
    g = Graph(cl)
    cells = ref.all_cells(n, n)
    s = cells[int(rng.integers(len(cells)))]
    if mode_hint == 0:
        e = s
    elif mode_hint == 1:
        e = g.adj[s][int(rng.integers(len(g.adj[s])))]
    else:
        e = cells[int(rng.integers(len(cells)))]
    sol = g.shortest_path(s, e, rng)
    return cl, s, e, sol


def same_maze(ctx, back, cls, cl, s, e, sol, kind, mech, case):
    if not ctx.check(type(back) is cls, f"{mech}/wrong-kind", f"got {type(back).__name__} expected {cls.__name__}", case):
        return
    ctx.check(back.connection_list.shape == cl.shape and np.array_equal(back.connection_list, cl), f"{mech}/connection-list-differs",
              lambda: f"shape {back.connection_list.shape} vs {cl.shape}", case)
    if kind != "LatticeMaze":
        ctx.check(tuple(int(x) for x in back.start_pos) == tuple(s) and tuple(int(x) for x in back.end_pos) == tuple(e), f"{mech}/ends-differ",
                  lambda: f"{back.start_pos}->{back.end_pos} vs {s}->{e}", case)
    if kind == "SolvedMaze":
        got = [tuple(int(x) for x in p) for p in back.solution]
        ctx.check(got == [tuple(p) for p in sol], f"{mech}/solution-differs", lambda: f"{got} vs {sol}", case)


def run(ctx):
    from maze_dataset import MazeDataset, MazeDatasetConfig
    from maze_dataset.maze.lattice_maze import LatticeMaze, SolvedMaze, TargetedLatticeMaze
    from maze_dataset.tokenization import MazeTokenizer, MazeTokenizerModular, TokenizationMode

    CLS = dict(LatticeMaze=LatticeMaze, TargetedLatticeMaze=TargetedLatticeMaze, SolvedMaze=SolvedMaze)
    if ctx.shard % 2 == 1:
        # history, before anything else is tokenized in this process: (a) coordinates of other numeric types (rounded float
        # predictions, numpy floats) are turned into strings through the legacy tokenizers and the caller pads the lists it got back;
        # (b) token streams that are NOT well formed (two-digit indices split into digits, as in a character-level export) are
        # offered to the parsers, which refuse them, and the caller carries on
        from maze_dataset import token_utils as _tu
        with warnings.catch_warnings():
            warnings.simplefilter("ignore")
            for mode_h in TokenizationMode:
                tk = MazeTokenizer(tokenization_mode=mode_h, max_grid_size=None)
                for r in range(0, 21):
                    for c in range(0, 21):
                        if (r * 21 + c + ctx.shard) % 3:
                            continue
                        try:
                            out = tk.coords_to_strings([np.array([float(r), float(c)]), (float(r), float(c))])
                            if isinstance(out, list):
                                out += ["<pad>"] * 2
                                for o in out:
                                    if isinstance(o, list):
                                        o.append("<pad>")
                            ctx.tally("c07:history:float-coordinates-stringified")
                        except Exception:  # noqa: BLE001
                            ctx.tally("c07:history:float-coordinates-refused(not judged)")
            for r in range(0, 21):
                for c in range(0, 21):
                    if r < 10 and c < 10:
                        continue
                    rs = " ".join(str(r)); cs = " ".join(str(c))
                    for bad in (f"({rs},{cs})", f"( {rs} , {cs} )", f"({rs} ,{c})", f"({r}, {cs})"):
                        for fn in (getattr(_tu, "coord_str_to_tuple_noneable", None), getattr(_tu, "coord_str_to_tuple", None)):
                            if fn is None:
                                continue
                            try:
                                fn(bad)
                            except Exception:  # noqa: BLE001
                                pass
                        try:
                            _tu.strings_to_coords(["<PATH_START>", bad, "<PATH_END>"], when_noncoord="error")
                        except Exception:  # noqa: BLE001
                            pass
                        try:
                            MazeTokenizer(tokenization_mode=TokenizationMode.AOTP_UT_uniform, max_grid_size=None).strings_to_coords(f"<PATH_START> {bad} <PATH_END>", when_noncoord="error")
                        except Exception:  # noqa: BLE001
                            pass
                        ctx.tally("c07:history:malformed-coordinate-tokens-offered")
    n_cases = 520 if ctx.quick else 10000
    for j in range(n_cases):
        if not ctx.mine(j):
            continue
        rng = ctx.sub_rng("m", j)
        n = int(rng.integers(2, 21)) if j % 3 else int(rng.integers(11, 21))
        kind = KINDS[j % 3]
        mode_name = MODES[(j // 3) % 3]
        mode = TokenizationMode[mode_name]
        mgs_tag = ["None", "n", "50"][(j // 9) % 3]
        mgs = {"None": None, "n": n, "50": 50}[mgs_tag]
        cl, s, e, sol = build(rng, n, j % 3, (j // 27) % 4)
        maze = lib.lattice(cl) if kind == "LatticeMaze" else (lib.targeted(cl, s, e) if kind == "TargetedLatticeMaze" else lib.solved(cl, sol))
        cls = CLS[kind]
        ctt = mode_name == "AOTP_CTT_indexed"
        case = dict(j=j, n=n, kind=kind, mode=mode_name, max_grid_size=mgs, cl=cl if n <= 6 else None, s=s, e=e, sol=sol)
        if n >= 11:
            ctx.tally("c07:grid>=11")
        if kind == "SolvedMaze" and len(sol) == 1:
            ctx.tally("c07:one-cell-solution")
        if kind == "SolvedMaze" and len(sol) == 2:
            ctx.tally("c07:two-cell-solution")
        ctx.tally(f"c07:mgs:{mgs_tag}")
        with warnings.catch_warnings():
            warnings.simplefilter("ignore")
            legacy = MazeTokenizer(tokenization_mode=mode, max_grid_size=mgs)
            modular = MazeTokenizerModular.from_legacy(mode if j % 2 else legacy)
            streams = {}
            for tname, tok in (("legacy", legacy), ("modular", modular), ("mode-enum", mode)):
                if tname == "mode-enum" and j % 4:
                    continue
                mech = f"C07/roundtrip/{tname}/{mode_name}/{kind}"
                try:
                    np.random.seed(ctx.case_seed("tok", j, tname) % (2**32))
                    toks = maze.as_tokens(tok)
                    streams[tname] = toks
                    for form in ("list", "str"):
                        back = cls.from_tokens(toks if form == "list" else " ".join(toks), tok)
                        ctx.ev()
                        if tname == "legacy":
                            ctx.tally(f"c07:rt:{mode_name}:{kind}:{form}")
                        elif tname == "modular":
                            ctx.tally(f"c07:rt:modular:{mode_name}:{kind}")
                        same_maze(ctx, back, cls, cl, s, e, sol, kind, mech + f"/{form}", case)
                    # the parser may be reached through any of the three classes; the maze that comes back is the one that was
                    # tokenized (same kind as the original), whichever class the classmethod was called on
                    for via_name, via in CLS.items():
                        if via is cls:
                            continue
                        form = "list" if (j + len(via_name)) % 2 else "str"
                        back = via.from_tokens(toks if form == "list" else " ".join(toks), tok)
                        ctx.ev(); ctx.tally("c07:rt:via-other-class")
                        same_maze(ctx, back, cls, cl, s, e, sol, kind, f"C07/roundtrip/{tname}/{mode_name}/{kind}/via-{via_name}", case)
                    if n >= 3:
                        ctx.nontrivial(tname, mode_name, mgs, kind, cl, s, e, np.asarray(sol))
                except Exception as ex:  # noqa: BLE001
                    import traceback
                    ctx.violation(f"{mech}/exception/{type(ex).__name__}", traceback.format_exc()[-1500:], case)
            # the same object, tokenized again after one of its connections was changed in place: the tokens must describe the maze
            # as it is now (the added edge keeps every row/column index in some connection)
            if j % 4 == 1 and kind == "LatticeMaze":
                free = [sl for sl in ref.lattice_edge_slots(n, n) if not maze.connection_list[sl]]
                if free:
                    sl = free[int(rng.integers(len(free)))]
                    maze.connection_list[sl] = True
                    cl2 = np.array(maze.connection_list, dtype=bool)
                    ctx.tally("c07:retokenized-after-in-place-edit")
                    for tname, tok in (("legacy", legacy), ("modular", modular)):
                        mech = f"C07/roundtrip-after-in-place-edit/{tname}/{mode_name}"
                        try:
                            toks2 = maze.as_tokens(tok)
                            back = cls.from_tokens(toks2, tok)
                            ctx.ev()
                            same_maze(ctx, back, cls, cl2, s, e, sol, kind, mech, dict(case, edited_slot=sl))
                            el2, _rest = parse_stream(toks2, ctt)
                            E2 = Graph(cl2).edges()
                            ctx.check(len(el2) == len(E2) and set(el2) == E2, mech + "/adjacency-not-the-current-edge-set", lambda: f"{len(el2)} entries vs {len(E2)} edges", dict(case, edited_slot=sl))
                        except Exception as ex:  # noqa: BLE001
                            ctx.violation(f"{mech}/exception/{type(ex).__name__}", repr(ex)[:400], case)
                    cl = cl2
            # legacy vs modular equivalence
            if "legacy" in streams and "modular" in streams and not (j % 4 == 1 and kind == "LatticeMaze"):
                try:
                    el, rl = parse_stream(streams["legacy"], ctt)
                    em, rm = parse_stream(streams["modular"], ctt)
                    ctx.ev(); ctx.tally("c07:legacy-vs-modular")
                    ctx.check(rl == rm, "C07/legacy-vs-modular/non-adjacency-tokens-differ", lambda: f"legacy {rl[:30]} modular {rm[:30]}", case)
                    E = Graph(cl).edges()
                    ctx.check(len(el) == len(E) and set(el) == E, "C07/legacy-adjacency-not-the-edge-set", lambda: f"{len(el)} entries vs {len(E)} edges", case)
                    ctx.check(len(em) == len(E) and set(em) == E, "C07/modular-adjacency-not-the-edge-set", lambda: f"{len(em)} entries vs {len(E)} edges", case)
                    # the published vocabularies must contain every emitted token
                    if mgs is not None:
                        ctx.check(all(t in legacy.tokenizer_map for t in streams["legacy"]), "C07/legacy-token-outside-its-vocabulary", "", case)
                except Exception as ex:  # noqa: BLE001
                    ctx.violation(f"C07/legacy-vs-modular/unparseable/{type(ex).__name__}", repr(ex)[:400], case)
        if j < 3:
            ctx.sample(dict(case={k: v for k, v in case.items() if k != "cl"}, tokens_head=streams.get("legacy", [])[:14]))
    # dataset-level tokenization
    n_ds = 40 if ctx.quick else 600
    for j in range(n_ds):
        if not ctx.mine(j):
            continue
        rng = ctx.sub_rng("ds", j)
        g = int(rng.integers(2, 9))
        k = int(rng.integers(1, 6))
        items = []
        for _ in range(k):
            cl, s, e, sol = build(rng, g, 2, 3)
            items.append(lib.solved(cl, sol))
        with warnings.catch_warnings():
            warnings.simplefilter("ignore")
            # the config's maze count need not equal the list (hand-made lists, mazes appended later): the tokenization follows the list
            n_cfg = [k, 1, k + 3, max(k - 1, 0)][j % 4]
            if n_cfg != k:
                ctx.tally("c07:dataset-config-count-differs-from-list")
            ds = MazeDataset(MazeDatasetConfig(name=f"c07-{j}", grid_n=g, n_mazes=n_cfg), items)
            mode = TokenizationMode[MODES[j % 3]]
            tok = [MazeTokenizer(tokenization_mode=mode, max_grid_size=g), MazeTokenizerModular.from_legacy(mode), mode][j % 3] if j % 3 != 2 else \
                MazeTokenizer(tokenization_mode=mode, max_grid_size=None)
            for limit in (None, 0, 1, k, k + 2, max(k - 1, 0)):
                for join in (False, True):
                    case = dict(j=j, g=g, k=k, limit=limit, join=join, mode=mode.value)
                    with ctx.guard("C07/dataset-as_tokens", case):
                        np.random.seed(j)
                        got = ds.as_tokens(tok, limit=limit, join_tokens_individual_maze=join)
                        np.random.seed(j)
                        exp = [m.as_tokens(tok) for m in items[:limit]]
                        if join:
                            exp = [" ".join(t) for t in exp]
                        ctx.ev(); ctx.tally("c07:dataset-as_tokens")
                        # adjacency order/orientation is random per call: compare as (rest of stream, edge multiset) per maze, in order
                        ctt = mode.value == "AOTP_CTT_indexed"
                        ok = len(got) == len(exp) and all(isinstance(x, str) == join for x in got)
                        if ok:
                            for a, b in zip(got, exp):
                                ea, ra = parse_stream(a.split(" ") if join else list(a), ctt)
                                eb, rb = parse_stream(b.split(" ") if join else list(b), ctt)
                                if ra != rb or sorted(map(sorted, ea)) != sorted(map(sorted, eb)):
                                    ok = False
                                    break
                        ctx.check(ok, "C07/dataset-as_tokens-differs", lambda: f"limit={limit} join={join}: {len(got)} vs {len(exp)} items", case)
