"""C03 — every item of a generated dataset is a correctly solved maze."""

from __future__ import annotations

import os
import signal
import time
import warnings

import numpy as np

from ..ref import Graph

LEVEL = "exploration"
TECHNIQUE = 'runtime monitoring: per-item invariant monitor on generated datasets (reference BFS + re-implemented endpoint-option semantics); pool-size / maxtasksperchild sweep with injected delays at a probe inside forked workers and an offline check of the recorded task->worker event log'
RULE = ("MazeDataset.generate / from_config over generator x kwargs (the 8 DEFAULT_GENERATORS, gen_prim, constrained variants) x "
        "grid 2..8,12 (some 16, 20) x n_mazes {0,1,3,8,32} (some 130, 260) x seeds x endpoint-option sets (none; allowed start/end lists of size 1,2,many incl. "
        "cells outside the component; dead-end flags; endpoints_not_equal; combinations), serially and in parallel with processes "
        "in {1,2,3,5,8,16} and maxtasksperchild in {None,1,2}; a PY_START probe inherited by the forked workers injects 0-3 ms "
        "jitter into _generate_maze_helper and logs (pid, index), so task->worker schedules vary and are recorded. Also from_config with its default caching for configurations that share one cache directory and differ only in the maze count. Also parallel generation under the spawn and forkserver start methods (fresh interpreters) and a 131x131 grid serial and parallel. Every item is "
        "judged against an adjacency-set model (kind, shape, walk along connections, no repeated cell, BFS-shortest, ends agree, "
        "options honoured). non-trivial & distinct = distinct (config, index, connection_list, solution) items with >= 2 cells")
ASSUMPTIONS = ["ValueError (no valid endpoints / one-cell component) and the grid_n=1 assertion are documented rejections",
               "parallel generation content may depend on the schedule; only validity, count and order of indices are judged"]
NSHARDS = {"quick": 16, "thorough": 16}
THRESHOLDS = {"quick": {
    "c03:datasets": 300, "c03:items": 2500, "c03:parallel-runs": 20, "c03:distinct-schedules?c03:schedule-probe-attached": 10, "c03:opt:allowed_start": 100,
    "c03:opt:allowed_end": 100, "c03:opt:deadend_start:nontrivial": 100, "c03:opt:deadend_end:nontrivial": 100,
    "c03:opt:endpoints_not_equal": 100, "c03:opt:deadend+allowed-same-endpoint:nontrivial": 30, "c03:opt:none": 500, "c03:equal-endpoints-allowed-and-seen": 5, "c03:empty-dataset": 5,
    "c03:from_config": 30, "c03:shared-cache-requests": 12, "c03:derived-datasets-overwritten": 25, "c03:sweep-requests:refused": 8, "c03:sweep-requests:served": 20, "c03:shared-cache-requests:config-object-reused": 6, "c03:start-method-datasets": 4, "c03:huge-grid-datasets": 2, "c03:many-mazes": 20, "c03:large-grid": 15, "c03:worker-pids?c03:schedule-probe-attached": 30,
    "hits:_generate_maze_helper?c03:schedule-probe-attached": 1000,
}}
THRESHOLDS["thorough"] = {**THRESHOLDS["quick"], "c03:datasets": 4000, "c03:parallel-runs": 300, "c03:distinct-schedules?c03:schedule-probe-attached": 100}
ANCHORS = ["maze_dataset.dataset.maze_dataset:_generate_maze_helper",
           "maze_dataset.dataset.maze_dataset:_maze_gen_init_worker",
           "maze_dataset.dataset.maze_dataset:MazeDataset.generate",
           "maze_dataset.maze.lattice_maze:LatticeMaze.generate_random_path",
           "maze_dataset.maze.lattice_maze:SolvedMaze.__init__"]

GEN_SPECS = [
    ("gen_dfs", {}), ("gen_dfs", dict(do_forks=False)), ("gen_dfs", dict(accessible_cells=20)), ("gen_dfs", dict(max_tree_depth=0.5)),
    ("gen_wilson", {}), ("gen_percolation", dict(p=1.0)), ("gen_dfs_percolation", dict(p=0.1)), ("gen_dfs_percolation", dict(p=0.4)),
    ("gen_prim", {}), ("gen_prim", dict(accessible_cells=0.5)), ("gen_dfs", dict(accessible_cells=0.5, max_tree_depth=0.5)),
    ("gen_percolation", dict(p=0.7)), ("gen_dfs", dict(randomized_stack=True)), ("gen_dfs", dict(accessible_cells=3)),
]
FEASIBLE = {("gen_dfs", ()), ("gen_wilson", ()), ("gen_prim", ()), ("gen_dfs", (("randomized_stack", True),)),
            ("gen_percolation", (("p", 1.0),)), ("gen_dfs_percolation", (("p", 0.1),)), ("gen_dfs_percolation", (("p", 0.4),))}


class _Timeout(Exception):
    pass


def _alarm(_sig, _frm):
    raise _Timeout()


def endpoint_options(g: int, rng):
    cells = [(r, c) for r in range(g) for c in range(g)]

    def pick(k):
        idx = rng.choice(len(cells), size=min(k, len(cells)), replace=False)
        return [cells[int(i)] for i in idx]

    if rng.random() < 0.25:
        return {}
    # every option independently, so that all combinations occur (incl. allowed_X together with deadend_X on the same endpoint,
    # and two-element allowed sets with endpoints_not_equal, where equal endpoints are likely when wrongly permitted)
    o = {}
    two = pick(2)
    if rng.random() < 0.4:
        o["allowed_start"] = [pick(1), two, pick(int(rng.integers(3, 8))), cells][int(rng.integers(4))]
    if rng.random() < 0.4:
        o["allowed_end"] = [pick(1), list(two), pick(int(rng.integers(3, 8))), cells][int(rng.integers(4))]
    if rng.random() < 0.35:
        o["deadend_start"] = True
    if rng.random() < 0.35:
        o["deadend_end"] = True
    if rng.random() < 0.4:
        o["endpoints_not_equal"] = True
    elif rng.random() < 0.1:
        o["endpoints_not_equal"] = False
    return o


def check_item(ctx, item, g_n, opts, case):
    from maze_dataset.maze.lattice_maze import SolvedMaze

    if not ctx.check(type(item) is SolvedMaze, "C03/item-not-SolvedMaze", f"{type(item).__name__}", case):
        return
    cl = item.connection_list
    if not ctx.check(isinstance(cl, np.ndarray) and cl.shape == (2, g_n, g_n), "C03/item-wrong-grid-size", f"{getattr(cl, 'shape', None)} vs {g_n}", case):
        return
    g = Graph(cl)
    sol = np.asarray(item.solution)
    if not ctx.check(sol.ndim == 2 and sol.shape[1] == 2 and sol.shape[0] >= 1, "C03/solution-malformed", f"{sol.shape}", case):
        return
    path = [tuple(int(x) for x in c) for c in sol]
    s, e = path[0], path[-1]
    prob = g.path_problems(path)
    if not ctx.check(prob is None, "C03/solution-not-a-walk-along-connections", lambda: f"{prob}; path={path}", case):
        return
    ctx.check(len(set(path)) == len(path), "C03/solution-repeats-a-cell", lambda: f"path={path}", case)
    d = g.bfs(s)[e]
    ctx.check(len(path) - 1 == d, "C03/solution-not-shortest", lambda: f"{len(path) - 1} steps, BFS {d}; path={path}", case)
    ctx.check(tuple(int(x) for x in item.start_pos) == s and tuple(int(x) for x in item.end_pos) == e,
              "C03/ends-disagree-with-solution", lambda: f"start_pos={item.start_pos} end_pos={item.end_pos} path={path}", case)
    o = opts or {}
    special = any(o.get(k) for k in ("allowed_start", "allowed_end", "deadend_start", "deadend_end")) or \
        o.get("allowed_start") is not None or o.get("allowed_end") is not None
    if not special:
        ctx.tally("c03:opt:none")
        ctx.check(s != e, "C03/equal-endpoints-without-options", f"s=e={s}", case)
    if o.get("endpoints_not_equal"):
        ctx.tally("c03:opt:endpoints_not_equal")
        ctx.check(s != e, "C03/endpoints_not_equal-violated", f"s=e={s} opts={o}", case)
    elif special and s == e:
        ctx.tally("c03:equal-endpoints-allowed-and-seen")
    if o.get("allowed_start") is not None:
        ctx.tally("c03:opt:allowed_start")
        ctx.check(s in {tuple(x) for x in o["allowed_start"]}, "C03/allowed_start-violated", f"s={s} allowed={o['allowed_start']}", case)
    if o.get("allowed_end") is not None:
        ctx.tally("c03:opt:allowed_end")
        ctx.check(e in {tuple(x) for x in o["allowed_end"]}, "C03/allowed_end-violated", f"e={e} allowed={o['allowed_end']}", case)
    comp = g.component_of(s)
    if o.get("deadend_start"):
        ctx.check(g.degree(s) == 1, "C03/deadend_start-violated", f"s={s} degree {g.degree(s)}", case)
        pool = comp if o.get("allowed_start") is None else (comp & {tuple(x) for x in o["allowed_start"]})
        if any(g.degree(c) != 1 for c in pool):
            ctx.tally("c03:opt:deadend_start:nontrivial")
            if o.get("allowed_start") is not None:
                ctx.tally("c03:opt:deadend+allowed-same-endpoint:nontrivial")
    if o.get("deadend_end"):
        ctx.check(g.degree(e) == 1, "C03/deadend_end-violated", f"e={e} degree {g.degree(e)}", case)
        pool = comp if o.get("allowed_end") is None else (comp & {tuple(x) for x in o["allowed_end"]})
        if any(g.degree(c) != 1 for c in pool):
            ctx.tally("c03:opt:deadend_end:nontrivial")
            if o.get("allowed_end") is not None:
                ctx.tally("c03:opt:deadend+allowed-same-endpoint:nontrivial")
    ctx.tally("c03:items")
    if len(path) >= 2:
        ctx.nontrivial(case.get("cfg_key"), case.get("index"), cl, sol)


def run(ctx):
    from maze_dataset import MazeDataset, MazeDatasetConfig
    from maze_dataset.dataset import maze_dataset as md
    from maze_dataset.generation.generators import GENERATORS_MAP
    from ..probes import Probes

    P = Probes.get()
    jit = np.random.default_rng(int.from_bytes(os.urandom(4), "little"))

    def on_helper_start(fr):
        if os.getpid() != ctx.pid:
            idx = fr.f_locals.get("index")
            time.sleep(float(jit.random()) * 0.003)
            ctx.child_event(index=int(idx) if idx is not None else -1)

    helper = getattr(md, "_generate_maze_helper", None)
    probe_ok = callable(helper)
    if probe_ok:
        try:
            P.on_start(helper, on_helper_start, name="_generate_maze_helper")
        except Exception:  # noqa: BLE001
            probe_ok = False
    # the schedule log (task -> worker) hangs on a private per-maze helper; if a refactoring removed it, schedules are simply
    # not observed (the items of parallel datasets are judged all the same)
    ctx.tally("c03:schedule-probe-attached" if probe_ok else "c03:schedule-probe-unavailable(not judged)")
    signal.signal(signal.SIGALRM, _alarm)

    n_cfg = 640 if ctx.quick else 6400
    schedules = set()
    for i in range(n_cfg):
        if not ctx.mine(i):
            continue
        rng = ctx.sub_rng("cfg", i)
        gen, kw = GEN_SPECS[i % len(GEN_SPECS)]
        g_n = [2, 3, 4, 5, 6, 7, 8, 12][int(rng.integers(8))] if i % 9 else 1
        if gen == "gen_wilson" and g_n == 12 and ctx.quick:
            g_n = 6
        n_mazes = [0, 1, 3, 8, 32][int(rng.integers(5))]
        if g_n == 12:
            n_mazes = min(n_mazes, 8)
        if i % 16 == 5 and g_n > 1:
            # many mazes (indices past 127 / 255) on a small grid
            g_n, n_mazes = min(g_n, 4), [130, 260][int(rng.integers(2))]
            ctx.tally("c03:many-mazes")
        elif i % 20 == 7 and gen != "gen_wilson":
            # large grid (more than 255 cells), few mazes
            g_n, n_mazes = [16, 20][int(rng.integers(2))], int(rng.integers(1, 4))
            ctx.tally("c03:large-grid")
        opts = endpoint_options(g_n, rng) if g_n > 1 else {}
        seed = int(rng.integers(0, 2**31 - 1)) if rng.random() < 0.7 else [0, 42, 7][int(rng.integers(3))]
        parallel = (i % 5 == 0) and n_mazes > 0
        pool_kwargs = None
        if parallel:
            pool_kwargs = dict(processes=[1, 2, 3, 5, 8, 16][int(rng.integers(6))])
            mt = [None, 1, 2][int(rng.integers(3))]
            if mt is not None:
                pool_kwargs["maxtasksperchild"] = mt
        via_from_config = (i % 7 == 3)
        cfg_key = f"{gen}|{sorted(kw.items())}|g{g_n}|n{n_mazes}|s{seed}|{sorted(opts.items(), key=repr)}"
        case = dict(gen=gen, kwargs=kw, grid_n=g_n, n_mazes=n_mazes, seed=seed, endpoint_kwargs=opts, parallel=parallel,
                    pool_kwargs=pool_kwargs, via_from_config=via_from_config, cfg_key=cfg_key)
        ctx.drain_sink()
        ds = None
        try:
            with warnings.catch_warnings():
                warnings.simplefilter("ignore")
                cfg = MazeDatasetConfig(name=f"c03-{i}", grid_n=g_n, n_mazes=n_mazes, maze_ctor=GENERATORS_MAP[gen],
                                        maze_ctor_kwargs=dict(kw), endpoint_kwargs=dict(opts), seed=seed)
                signal.alarm(240)
                try:
                    if via_from_config:
                        ds = MazeDataset.from_config(cfg, load_local=False, save_local=False, do_download=False,
                                                     gen_parallel=parallel, **({"pool_kwargs": pool_kwargs} if parallel else {}))
                        ctx.tally("c03:from_config")
                    else:
                        ds = MazeDataset.generate(cfg, gen_parallel=parallel, pool_kwargs=pool_kwargs)
                finally:
                    signal.alarm(0)
        except _Timeout:
            ctx.tally("c03:parallel-timeout")
            ctx.note(f"generation timed out (inconclusive, not a violation): {case}")
            continue
        except ValueError as ex:
            ctx.tally("rejected:C03/generate:ValueError")
            feasible = (gen, tuple(sorted(kw.items()))) in FEASIBLE and not opts and g_n >= 2
            ctx.check(not feasible, "C03/feasible-config-rejected", f"ValueError: {str(ex)[:300]}", case)
            continue
        except AssertionError as ex:
            ctx.tally("rejected:C03/generate:AssertionError")
            ctx.check(g_n == 1 and n_mazes > 0, "C03/unexpected-assertion", f"AssertionError: {str(ex)[:300]}", case)
            continue
        except Exception as ex:  # noqa: BLE001
            import traceback
            ctx.violation(f"C03/generate/exception/{type(ex).__name__}", traceback.format_exc()[-1500:], case)
            continue
        ctx.ev(); ctx.tally("c03:datasets")
        if parallel:
            ctx.tally("c03:parallel-runs")
            events = [e for e in ctx.drain_sink() if e.get("kind") == "event"]
            byidx = {}
            for e in events:
                byidx.setdefault(e["index"], e["pid"])
            pids = sorted(set(byidx.values()))
            order = {p: k for k, p in enumerate(pids)}
            sched = tuple(order[byidx[k]] for k in sorted(byidx))
            if len(set(sched)) > 1:
                schedules.add((n_mazes, sched))
                ctx.nontrivial("schedule", n_mazes, sched)
            ctx.tally("c03:worker-pids", len(pids))
            if probe_ok and byidx:
                ctx.check(sorted(byidx) == list(range(n_mazes)), "C03/parallel-task-indices-wrong",
                          f"worker log saw indices {sorted(byidx)} for n_mazes={n_mazes}", case)
            if len(ctx.samples) < 3:
                ctx.sample(dict(case=case, task_to_worker=sched, distinct_pids=len(pids)))
        if n_mazes == 0:
            ctx.tally("c03:empty-dataset")
        if not ctx.check(len(ds) == n_mazes and len(ds.mazes) == n_mazes, "C03/wrong-number-of-mazes", f"len={len(ds)} configured {n_mazes}", case):
            pass
        ctx.check(ds.cfg.n_mazes == n_mazes and ds.cfg.grid_n == g_n, "C03/dataset-config-disagrees", f"{ds.cfg.n_mazes}/{ds.cfg.grid_n}", case)
        for idx in range(len(ds)):
            check_item(ctx, ds[idx], g_n, opts, dict(case, index=idx))
        if i % 4 == 1 and 1 <= len(ds) <= 40:
            # datasets derived from this one (a deep copy, filter results) belong to whoever made them: their stored routes are
            # overwritten in place (reversed / blanked), then every item of THIS dataset is judged again
            import copy as _copy
            try:
                with warnings.catch_warnings():
                    warnings.simplefilter("ignore")
                    derived = [_copy.deepcopy(ds), ds.filter_by.path_length(min_length=0), ds.filter_by.truncate_count(max(1, len(ds) - 1)), ds[: len(ds)] if False else _copy.copy(ds)]
                for dd in derived[:3]:
                    for m2 in dd.mazes:
                        sol2 = m2.solution
                        if sol2.flags.writeable:
                            sol2[...] = sol2[::-1].copy() if i % 8 == 1 else 0
                ctx.tally("c03:derived-datasets-overwritten")
                for idx in range(len(ds)):
                    check_item(ctx, ds[idx], g_n, opts, dict(case, index=idx, after="a deep copy and two filter results of the dataset had their routes overwritten in place"))
            except Exception as ex:  # noqa: BLE001
                ctx.tally(f"c03:derived-datasets-step-failed:{type(ex).__name__}(not judged)")
        if i < 4:
            ctx.sample(dict(case=case, n_items=len(ds)))
    ctx.tally("c03:distinct-schedules", len(schedules))
    _shared_cache(ctx, MazeDataset, MazeDatasetConfig, GENERATORS_MAP)
    _refused_then_valid(ctx, MazeDataset, MazeDatasetConfig, GENERATORS_MAP)
    _other_start_methods(ctx)
    _huge_grid(ctx, MazeDataset, MazeDatasetConfig, GENERATORS_MAP)


def _refused_then_valid(ctx, MazeDataset, MazeDatasetConfig, GENERATORS_MAP):
    """one configuration object swept over grid sizes in place, with endpoint options that some of the sizes cannot honour (the
    request is then refused with the documented ValueError): every dataset that IS returned honours the options, and the refused
    requests leave the configuration as it was"""
    sweeps = [(dict(allowed_end=[(4, 4)]), [3, 4, 5, 6, 7]), (dict(allowed_start=[(5, 0)], endpoints_not_equal=True), [4, 5, 6, 3, 7]),
              (dict(allowed_start=[(0, 0)], allowed_end=[(3, 3), (6, 6)]), [2, 3, 4, 7, 5]), (dict(allowed_end=[(2, 5), (5, 2)], deadend_start=True), [5, 3, 6, 4, 8])]
    for si, (opts, sizes) in enumerate(sweeps):
        for how in ("generate", "generate-parallel", "from_config"):
            if not ctx.mine(si * 3 + ("generate", "generate-parallel", "from_config").index(how)):
                continue
            with warnings.catch_warnings():
                warnings.simplefilter("ignore")
                cfg = MazeDatasetConfig(name=f"c03-sweep-{si}", grid_n=sizes[0], n_mazes=6, maze_ctor=GENERATORS_MAP["gen_dfs"], seed=40 + si,
                                        endpoint_kwargs={k: (list(v) if isinstance(v, list) else v) for k, v in opts.items()})
                want = repr(cfg.endpoint_kwargs)
                for g_n in sizes:
                    cfg.grid_n = g_n
                    case = dict(kind="refused-then-valid", how=how, opts=opts, sizes=sizes, grid_n=g_n)
                    try:
                        if how == "generate":
                            ds = MazeDataset.generate(cfg, gen_parallel=False)
                        elif how == "generate-parallel":
                            ds = MazeDataset.generate(cfg, gen_parallel=True, pool_kwargs=dict(processes=2))
                        else:
                            ds = MazeDataset.from_config(cfg, load_local=False, save_local=False, do_download=False)
                        refused = False
                    except ValueError:
                        refused, ds = True, None
                    except Exception as ex:  # noqa: BLE001
                        ctx.tally(f"c03:sweep-request-failed:{type(ex).__name__}(not judged)")
                        continue
                    ctx.ev(); ctx.tally("c03:sweep-requests"); ctx.tally("c03:sweep-requests:refused" if refused else "c03:sweep-requests:served")
                    ctx.check(repr(cfg.endpoint_kwargs) == want, "C03/request-changed-the-endpoint-options-of-the-config",
                              f"endpoint options now {cfg.endpoint_kwargs!r}, were {want} ({'refused' if refused else 'served'} request on {g_n}x{g_n})", case)
                    if ds is not None:
                        ctx.check(len(ds) == 6, "C03/wrong-number-of-mazes", f"len={len(ds)} configured 6", case)
                        for idx in range(len(ds)):
                            check_item(ctx, ds[idx], g_n, opts, dict(case, index=idx))


def _other_start_methods(ctx):
    """parallel generation in interpreters whose multiprocessing start method is spawn / forkserver (the defaults on macOS and
    Windows / newer Pythons): workers there do not inherit the parent's module state, they only get what is sent to them"""
    import json
    import subprocess

    from ..core import VERIF_ROOT
    from ..runner import PY, shard_env

    for mi, method in enumerate(("spawn", "forkserver")):
        if not ctx.mine(3 + 5 * mi):
            continue
        specs = [dict(name=f"c03-{method}-a", gen="gen_dfs", kwargs={}, grid_n=5, n_mazes=10, seed=3, processes=2,
                      opts=dict(deadend_start=True, deadend_end=True, endpoints_not_equal=True)),
                 dict(name=f"c03-{method}-b", gen="gen_dfs_percolation", kwargs=dict(p=0.2), grid_n=4, n_mazes=9, seed=4, processes=3,
                      opts=dict(allowed_start=[[0, 0], [3, 3]], allowed_end=[[0, 3], [3, 0], [1, 1]], endpoints_not_equal=True)),
                 dict(name=f"c03-{method}-c", gen="gen_wilson", kwargs={}, grid_n=3, n_mazes=7, seed=5, processes=2, opts={})]
        try:
            p = subprocess.run([PY, "-m", "vmon.c03_child", method], input=json.dumps(specs), capture_output=True, text=True,
                               env=shard_env(), cwd=VERIF_ROOT, timeout=900)
        except subprocess.TimeoutExpired:
            ctx.tally("c03:start-method-child-timeout(not judged)")
            continue
        if p.returncode != 0 or "{" not in p.stdout:
            ctx.tally("c03:start-method-child-failed(not judged)")
            ctx.note(f"c03 child ({method}) failed: {p.stderr[-400:]}")
            continue
        r = json.loads(p.stdout[p.stdout.rindex("{\"tallies\""):])
        ctx.ev(r["tallies"].get("c03:items", 0)); ctx.tally(f"c03:start-method:{method}:items", r["tallies"].get("c03:items", 0))
        ctx.tally("c03:start-method-datasets", r["tallies"].get("datasets", 0))
        for v in r["violations"]:
            ctx.violation(v["mechanism"], f"[parallel generation, multiprocessing start method {method}] " + v["detail"], v["case"])


def _huge_grid(ctx, MazeDataset, MazeDatasetConfig, GENERATORS_MAP):
    """a grid with more than 127 cells a side, serial and parallel: coordinates past the int8 range in solutions"""
    for k, parallel in enumerate((False, True)):
        if not ctx.mine(7 + k):
            continue
        g_n = 131
        opts = dict(allowed_start=[(0, 0)], allowed_end=[(g_n - 1, g_n - 1)])
        case = dict(kind="huge-grid", grid_n=g_n, parallel=parallel, cfg_key=f"huge-{parallel}", endpoint_kwargs=opts)
        try:
            with warnings.catch_warnings():
                warnings.simplefilter("ignore")
                cfg = MazeDatasetConfig(name="c03-huge", grid_n=g_n, n_mazes=2, maze_ctor=GENERATORS_MAP["gen_dfs"], maze_ctor_kwargs={},
                                        endpoint_kwargs=dict(opts), seed=9)
                signal.alarm(600)
                try:
                    ds = MazeDataset.generate(cfg, gen_parallel=parallel, pool_kwargs=dict(processes=2) if parallel else None)
                finally:
                    signal.alarm(0)
        except _Timeout:
            ctx.tally("c03:parallel-timeout")
            continue
        except Exception as ex:  # noqa: BLE001
            import traceback
            ctx.violation(f"C03/generate/exception/{type(ex).__name__}", traceback.format_exc()[-1200:], case)
            continue
        ctx.ev(); ctx.tally("c03:huge-grid-datasets")
        ctx.check(len(ds) == 2, "C03/wrong-number-of-mazes", f"len={len(ds)}", case)
        for idx in range(len(ds)):
            check_item(ctx, ds[idx], g_n, opts, dict(case, index=idx))


def _shared_cache(ctx, MazeDataset, MazeDatasetConfig, GENERATORS_MAP):
    """the config-driven entry point with its default caching, several configurations sharing one cache directory (as a user's
    data/ directory does): configurations that differ only in the maze count, incl. counts whose shortened form in the file
    name coincides (1000 / 1001 -> '1.0K').  Every request must return exactly the configured number of correctly solved mazes."""
    import shutil
    import tempfile

    groups = [(2, "gen_dfs", [3, 4, 3]), (3, "gen_dfs", [120, 121]), (2, "gen_dfs", [1000, 1001, 1000]), (2, "gen_dfs_percolation", [1049, 1000]),
              (3, "gen_wilson", [7, 8]), (2, "gen_dfs", [2040, 2010]),
              # the usual sweep: ONE configuration object, its maze count assigned in place before each request (after the object
              # has already been used - file name, summary, earlier requests)
              (3, "gen_dfs", [6, 9, 6, 12]), (2, "gen_dfs_percolation", [5, 8, 5]), (4, "gen_dfs", [3, 120, 3]), (3, "gen_wilson", [4, 2])]
    for gi, (g_n, gen, counts) in enumerate(groups):
        if not ctx.mine(gi):
            continue
        base = tempfile.mkdtemp(prefix="c03-cache-", dir=ctx.work)
        reuse = gi >= 6
        shared_cfg = None
        try:
            for step, n in enumerate(counts):
                case = dict(kind="shared-cache", grid_n=g_n, gen=gen, counts=counts, step=step, n_mazes=n, one_config_object_reused=reuse)
                try:
                    with warnings.catch_warnings():
                        warnings.simplefilter("ignore")
                        if reuse and shared_cfg is not None:
                            cfg = shared_cfg
                            cfg.n_mazes = n
                            ctx.tally("c03:shared-cache-requests:config-object-reused")
                        else:
                            cfg = MazeDatasetConfig(name="c03-shared", grid_n=g_n, n_mazes=n, maze_ctor=GENERATORS_MAP[gen],
                                                    maze_ctor_kwargs=(dict(p=0.2) if gen == "gen_dfs_percolation" else {}), seed=5)
                            if reuse:
                                shared_cfg = cfg
                                cfg.to_fname(); cfg.summary()
                        ds = MazeDataset.from_config(cfg, local_base_path=base, do_download=False)
                except Exception as ex:  # noqa: BLE001
                    import traceback
                    ctx.violation(f"C03/shared-cache/exception/{type(ex).__name__}", traceback.format_exc()[-1200:], case)
                    continue
                ctx.ev(); ctx.tally("c03:shared-cache-requests")
                ctx.check(len(ds) == n and len(ds.mazes) == n, "C03/wrong-number-of-mazes",
                          f"from_config with a shared cache directory returned {len(ds)} mazes, configured {n} (earlier requests: {counts[:step]})", case)
                ctx.check(ds.cfg.n_mazes == n, "C03/dataset-config-disagrees", f"cfg.n_mazes={ds.cfg.n_mazes} configured {n}", case)
                for idx in list(range(min(len(ds), 25))) + ([len(ds) - 1] if len(ds) > 25 else []):
                    check_item(ctx, ds[idx], g_n, {}, dict(case, index=idx))
        finally:
            shutil.rmtree(base, ignore_errors=True)
