"""C06 — modular tokenization is a faithful, decodable encoding of the maze."""

from __future__ import annotations

import warnings
from collections import Counter

import numpy as np

from .. import lib, ref, tokdecode as td, tokspace as ts
from ..ref import Graph

OPTIMISED_LAST_SHARD = True  # the last shard runs under python -O (no assert statements)
LEVEL = "exploration"
TECHNIQUE = 'runtime monitoring: an independent decoder configured only from tokenizer parameters is the reference model for every observed token stream; region-exhaustive over 9x216 adjacency and 9x1008 path configurations plus a measured pairwise-covering and random set of full tokenizers'
RULE = ("region-exhaustive: all 9x216 coordinate x adjacency-list configurations and all 9x1008 coordinate x path configurations "
        "through the element-level to_tokens(maze, coord_tokenizer) on several mazes each (trees, cyclic, percolation with isolated "
        "cells; solutions with forks on/off the route, turns, one and two cells, long); full tokenizers: a pairwise covering array "
        "over the 14 parameter factors plus random configurations from the explicit configuration space, on all three maze kinds, "
        "grid 2..8 (quick) / ..20 and 50 (thorough). An independent decoder configured only from the tokenizer parameters parses the "
        "stream (vocabulary membership, delimiters once and in order, fixed-width edges/steps) and the decoded content is compared "
        "with an adjacency-set model: selected edge (multi)set and wall/connection marks, origin, target, and per step coordinate, "
        "cardinal, relative direction and distance. non-trivial & distinct = distinct (tokenizer parameters, maze) pairs with >= 1 edge")
ASSUMPTIONS = ["order and orientation of adjacency entries are the only permitted randomness (compared as multisets)",
               "Forks steps are the solution's forking points incl. both ends (rule 'more than one onward choice')"]
NSHARDS = {"quick": 16, "thorough": 16}
THRESHOLDS = {"quick": {"c06:adj-configs": 1944, "c06:element-level-answers-edited-by-caller": 2000, "c06:path-configs": 9072, "c06:full:LatticeMaze": 200, "c06:full:TargetedLatticeMaze": 200,
                        "c06:full:SolvedMaze": 400, "c06:pairwise-covering-configs": 300, "c06:pairs-covered-permille": 1000,
                        "c06:isolated-cells": 300, "c06:one-cell-solution": 200, "c06:forks-on-route": 500,
                        **{f"c06:delim:{d}": 100 for d in td.DELIMS}, "c06:relative:LEFT": 100, "c06:relative:RIGHT": 100,
                        "c06:relative:FORWARD": 100, "c06:relative:BACKWARD": 5, "c06:both-orientations": 300, "c06:walls-subset": 300, "c06:adj-grid>=12": 100, "c06:threaded-tokenizations": 200}}
THRESHOLDS["thorough"] = dict(THRESHOLDS["quick"])
ANCHORS = ["maze_dataset.tokenization.maze_tokenizer:AdjListTokenizers._AdjListTokenizer.to_tokens",
           "maze_dataset.tokenization.maze_tokenizer:AdjListTokenizers._AdjListTokenizer._tokenize_edge_grouping",
           "maze_dataset.tokenization.maze_tokenizer:PathTokenizers.StepSequence.to_tokens",
           "maze_dataset.tokenization.maze_tokenizer:PathTokenizers.StepSequence._single_step_tokens",
           "maze_dataset.tokenization.maze_tokenizer:PathTokenizers.StepSequence._leading_tokens",
           "maze_dataset.tokenization.maze_tokenizer:PromptSequencers._PromptSequencer.to_tokens",
           "maze_dataset.tokenization.maze_tokenizer:PromptSequencers._PromptSequencer._get_prompt_regions",
           "maze_dataset.tokenization.maze_tokenizer:PromptSequencers._PromptSequencer._trim_if_unsolved_maze",
           "maze_dataset.tokenization.maze_tokenizer:StepTokenizers.Cardinal.to_tokens",
           "maze_dataset.tokenization.maze_tokenizer:StepTokenizers.Relative.to_tokens",
           "maze_dataset.tokenization.maze_tokenizer:StepTokenizers.Distance.to_tokens",
           "maze_dataset.tokenization.maze_tokenizer:EdgeSubsets.ConnectionEdges._get_edges",
           "maze_dataset.token_utils:is_connection", "maze_dataset.token_utils:get_cardinal_direction",
           "maze_dataset.token_utils:get_relative_direction"]
AMBIENT = dict(generators=False, solver=False, solved=False)


def expected_edges(g: Graph, p):
    """Counter over directed or undirected keys the adjacency region must realise"""
    n = g.R
    lattice = [((r, c), (r + 1, c)) for r in range(n - 1) for c in range(n)] + [((r, c), (r, c + 1)) for r in range(n) for c in range(n - 1)]
    if p["subset"] == "all":
        sel = lattice
    elif p["subset"] == "conn":
        sel = [e for e in lattice if g.has_edge(*e)]
    else:
        sel = [e for e in lattice if not g.has_edge(*e)]
    return sel


def check_adj(ctx, decoded, g: Graph, p, mech, case):
    sel = expected_edges(g, p)
    for a, b, conn in decoded:
        if not (g.in_grid(a) and g.in_grid(b) and abs(a[0] - b[0]) + abs(a[1] - b[1]) == 1):
            ctx.violation(f"{mech}/not-a-lattice-edge", f"entry {a}-{b}", case)
            return
        if conn != g.has_edge(a, b):
            ctx.violation(f"{mech}/edge-marked-wrong/" + ("wall-marked-connection" if conn else "connection-marked-wall"), f"entry {a}-{b} marked {'<-->' if conn else '<XX>'}", case)
            return
    if p["permuter"] == "both":
        got = Counter((a, b) for a, b, _ in decoded)
        exp = Counter()
        for a, b in sel:
            exp[(a, b)] += 1; exp[(b, a)] += 1
        ctx.tally("c06:both-orientations")
    else:
        got = Counter(frozenset((a, b)) for a, b, _ in decoded)
        exp = Counter(frozenset(e) for e in sel)
    if got != exp:
        missing = list((exp - got).elements())[:4]; extra = list((got - exp).elements())[:4]
        ctx.violation(f"{mech}/edge-set-differs/{p['subset']}/{p['permuter']}",
                      f"{sum(got.values())} entries, expected {sum(exp.values())}; missing {missing} extra {extra}", case)
    if p["subset"] == "walls":
        ctx.tally("c06:walls-subset")


def check_path(ctx, lead, steps, sol, g: Graph, p, mech, case):
    if "Coord" in p["steps"]:
        ctx.check(lead == sol[0], f"{mech}/leading-coordinate-wrong", f"got {lead} expected {sol[0]}", case)
    else:
        ctx.check(lead is None, f"{mech}/unexpected-leading-coordinate", f"{lead}", case)
    deg = {c: g.degree(c) for c in sol}
    exp = td.expected_steps(sol, deg, p)
    if len(steps) != len(exp):
        ctx.violation(f"{mech}/step-count-wrong/{p['step_size']}", f"{len(steps)} steps decoded, expected {len(exp)}; solution {sol}", case)
        return
    for k, (a, b) in enumerate(zip(steps, exp)):
        for name in p["steps"]:
            if a.get(name) != b.get(name):
                ctx.violation(f"{mech}/step-{name}-wrong/{p['step_size']}", f"step {k}: decoded {a.get(name)} expected {b.get(name)}; solution {sol}", case)
                return
        if "Relative" in b:
            ctx.tally(f"c06:relative:{b['Relative']}")
    if p["step_size"] == "Forks" and len(exp) < len(sol) - 1:
        ctx.tally("c06:forks-skipped-cells")
    if any(g.degree(c) > 2 for c in sol[1:-1]):
        ctx.tally("c06:forks-on-route")


def vocab_ok(ctx, tokens, vocab, mech, case):
    bad = [t for t in tokens if t not in vocab]
    return ctx.check(not bad, f"{mech}/token-outside-vocabulary", f"{bad[:5]}", case)


def mazes_for(rng, n, count):
    """(cl, s, e, sol, tag) tuples"""
    out = []
    fams = ["tree", "cyc3", "perc4", "perc6", "cycN", "full", "serpentine", "perc2"]
    for k in range(count):
        fam = fams[int(rng.integers(len(fams)))] if k >= 3 else ["tree", "perc4", "cyc3"][k]
        fam, cl = ref.random_structure(n, n, rng, fam)
        g = Graph(cl)
        cells = ref.all_cells(n, n)
        s = cells[int(rng.integers(len(cells)))]
        comp = sorted(g.component_of(s))
        mode = int(rng.integers(6))
        if mode == 0:
            e = s
        elif mode == 1 and g.adj[s]:
            e = g.adj[s][0]
        else:
            far = g.bfs(s)
            e = max(comp, key=lambda c: far[c]) if mode in (2, 3) else comp[int(rng.integers(len(comp)))]
        out.append((cl, s, e, g.shortest_path(s, e, rng), fam))
    return out


def run(ctx):
    from maze_dataset.constants import VOCAB_TOKEN_TO_INDEX as VOC

    coords = list(ts.coord_space())
    adjs = list(ts.adj_space())
    paths = list(ts.path_space())
    per_cfg = 4 if ctx.quick else 12
    # ---- adjacency region, exhaustive over 9 x 216 --------------------------------
    k = 0
    for ci, cp in enumerate(coords):
        ct = ts.build_coord(dict(coord=cp))
        for ai, ap in enumerate(adjs):
            k += 1
            if not ctx.mine(k):
                continue
            p = dict(coord=cp, **ap)
            rng = ctx.sub_rng("adj", ci, ai)
            at = ts.build_adj(p)
            ctx.tally("c06:adj-configs")
            n_adj = int(rng.integers(2, 7)) if k % 8 else int(rng.integers(12, 17))  # every 8th configuration on a grid with > 127 cells
            for (cl, s, e, sol, fam) in mazes_for(rng, n_adj, per_cfg if n_adj < 12 else 1):
                g = Graph(cl)
                case = dict(region="adj", params=p, cl=cl if n_adj < 12 else None, n=n_adj, family=fam)
                if n_adj >= 12:
                    ctx.tally("c06:adj-grid>=12")
                mech = "C06/adj"
                try:
                    toks = at.to_tokens(lib.lattice(cl), ct)
                    ctx.ev()
                    if not vocab_ok(ctx, toks, VOC, mech, case):
                        continue
                    dec = td.decode_adj(list(toks), p)
                    check_adj(ctx, dec, g, p, mech, case)
                    if any(not g.adj[c] for c in g.adj):
                        ctx.tally("c06:isolated-cells")
                    if g.n_edges():
                        ctx.nontrivial("adj", ci, ai, cl)
                except td.DecodeError as ex:
                    ctx.violation(f"{mech}/undecodable", f"{ex}; tokens {list(toks)[:40]}", case)
                except Exception as ex:  # noqa: BLE001
                    import traceback
                    ctx.violation(f"{mech}/exception/{type(ex).__name__}", traceback.format_exc()[-1200:], case)
            if k % 401 == 0:
                ctx.sample(dict(region="adj", params=p, tokens_head=list(toks)[:16]))
    # ---- path region, exhaustive over 9 x 1008 --------------------------------------
    k = 0
    for ci, cp in enumerate(coords):
        ct = ts.build_coord(dict(coord=cp))
        for pi, pp in enumerate(paths):
            k += 1
            if not ctx.mine(k):
                continue
            p = dict(coord=cp, **pp)
            rng = ctx.sub_rng("path", ci, pi)
            pt = ts.build_path(p)
            ctx.tally("c06:path-configs")
            for (cl, s, e, sol, fam) in mazes_for(rng, int(rng.integers(2, 7)), per_cfg):
                g = Graph(cl)
                case = dict(region="path", params=p, cl=cl, sol=sol, family=fam)
                mech = "C06/path"
                try:
                    toks = pt.to_tokens(lib.solved(cl, sol), ct)
                    ctx.ev()
                    if len(sol) == 1:
                        ctx.tally("c06:one-cell-solution")
                    if not vocab_ok(ctx, toks, VOC, mech, case):
                        continue
                    lead, steps = td.decode_path(list(toks), p)
                    check_path(ctx, lead, steps, sol, g, p, mech, case)
                    if len(sol) > 1:
                        ctx.nontrivial("path", ci, pi, cl, np.asarray(sol))
                except td.DecodeError as ex:
                    ctx.violation(f"{mech}/undecodable", f"{ex}; tokens {list(toks)[:40]}", case)
                except Exception as ex:  # noqa: BLE001
                    import traceback
                    ctx.violation(f"{mech}/exception/{type(ex).__name__}", traceback.format_exc()[-1200:], case)
            if k % 2003 == 0:
                ctx.sample(dict(region="path", params=p, solution=sol, tokens=list(toks)[:24]))
    # ---- full tokenizers: pairwise covering + random --------------------------------
    cov_rng = ctx.sub_rng("covering")  # same array in every shard; each shard takes its slice
    cfgs, n_pairs = ts.covering_set(np.random.Generator(np.random.PCG64(ctx.seed + 12345)), 200)
    if ctx.shard == 0:
        ctx.tally("c06:pairwise-covering-configs", len(cfgs))
        cov, tot = ts.pair_coverage(cfgs)
        ctx.tally("c06:pairs-covered-permille", int(1000 * cov / tot))
        ctx.tally("c06:factor-value-pairs-covered", cov)
        ctx.note(f"pairwise covering array: {len(cfgs)} configurations cover {cov} of {tot} factor-value pairs")
    n_rand = 1200 if ctx.quick else 6000
    rr = np.random.Generator(np.random.PCG64(ctx.seed + 777))
    cfgs = cfgs + [ts.random_params(rr) for _ in range(n_rand)]
    sizes = [2, 3, 5, 8, 13, 4, 20, 6] if ctx.quick else [2, 3, 4, 5, 8, 11, 13, 16, 20, 30]
    for j, p in enumerate(cfgs):
        if not ctx.mine(j):
            continue
        rng = ctx.sub_rng("full", j)
        with warnings.catch_warnings():
            warnings.simplefilter("ignore")
            tok = ts.build_tokenizer(p)
        n = sizes[j % len(sizes)]
        if j % 97 == 0:
            n = 50
            ctx.tally("c06:grid-50")
        for (cl, s, e, sol, fam) in mazes_for(rng, n, 2 if ctx.quick else 3):
            g = Graph(cl)
            for kind in ("LatticeMaze", "TargetedLatticeMaze", "SolvedMaze", "SolvedMaze"):
                maze = lib.lattice(cl) if kind == "LatticeMaze" else (lib.targeted(cl, s, e) if kind == "TargetedLatticeMaze" else lib.solved(cl, sol))
                case = dict(region="full", params=p, cl=cl if n <= 8 else None, n=n, kind=kind, s=s, e=e, sol=sol if n <= 8 else len(sol), family=fam)
                mech = f"C06/full/{kind}"
                try:
                    toks = list(tok.to_tokens(maze) if kind != "SolvedMaze" or j % 2 else maze.as_tokens(tok))
                    ctx.ev(); ctx.tally(f"c06:full:{kind}")
                    if not vocab_ok(ctx, toks, VOC, mech, case):
                        continue
                    reg = td.split_regions(toks, kind)
                    for d in td.DELIMS:
                        if d in toks:
                            ctx.tally(f"c06:delim:{d}")
                    check_adj(ctx, td.decode_adj(reg["adj"], p), g, p, mech + "/adj", case)
                    if kind != "LatticeMaze":
                        o = td.decode_origin(reg["origin"], p)
                        ctx.check(o == tuple(s), f"{mech}/origin-wrong", f"decoded {o} expected {s}", case)
                        t = td.decode_target(reg["target"], p)
                        if p["seq"] == "AOTP":
                            ctx.check(t == tuple(e), f"{mech}/target-wrong", f"decoded {t} expected {e}", case)
                    if kind == "SolvedMaze":
                        lead, steps = td.decode_path(reg["path"], p)
                        check_path(ctx, lead, steps, sol, g, p, mech + "/path", case)
                    if g.n_edges():
                        ctx.nontrivial("full", ts.name_of(p), cl, kind, s, e)
                    if kind == "SolvedMaze" and j % 2 == 0:
                        # what the element-level tokenizers hand back belongs to the caller (who wraps it in delimiters, pads it,
                        # trims it - in place); the equal maze tokenized next is judged as usual
                        ps = tok.prompt_sequencer
                        for el_name, arg in (("path_tokenizer", maze), ("adj_list_tokenizer", maze), ("target_tokenizer", [np.array(e)])):
                            el = getattr(ps, el_name, None)
                            if el is None:
                                continue
                            try:
                                part = el.to_tokens(arg, ps.coord_tokenizer)
                            except Exception:  # noqa: BLE001
                                ctx.tally("c06:element-level-call-refused(not judged)")
                                continue
                            if isinstance(part, list):
                                part.insert(0, "<PATH_START>"); part.extend(["<PATH_END>", "<PADDING>", "<PADDING>"])
                                if len(part) > 6:
                                    del part[2:4]
                                ctx.tally("c06:element-level-answers-edited-by-caller")
                        try:
                            raw = tok.to_tokens(maze)
                            if isinstance(raw, list):
                                raw.reverse(); raw.append("<PADDING>")
                        except Exception:  # noqa: BLE001
                            pass
                except td.DecodeError as ex:
                    ctx.violation(f"{mech}/undecodable", f"{ex}; tokens {toks[:50]}", case)
                except Exception as ex:  # noqa: BLE001
                    import traceback
                    ctx.violation(f"{mech}/exception/{type(ex).__name__}", traceback.format_exc()[-1200:], case)
        if j < 2:
            ctx.sample(dict(region="full", params=p, name=ts.name_of(p)))
    # ---- several threads tokenizing mazes of one size with one tokenizer at the same time: every stream is still judged on its own ----
    if ctx.mine(5) or ctx.mine(9):
        import sys as _sys
        from concurrent.futures import ThreadPoolExecutor

        old_si = _sys.getswitchinterval()
        _sys.setswitchinterval(1e-5)     # frequent hand-offs between the threads
        try:
            trng = ctx.sub_rng("threads", ctx.shard)
            tcfgs = [dict(seq="AOTP", coord="UT", adj_cls="AdjListCoord", adj_post=True, adj_shuffle=True, ordinal=1, subset="all", permuter="random",
                          tgt_post=False, step_size="Singles", steps=("Coord",), p_pre=False, p_intra=False, p_post=False),
                     dict(seq="AOP", coord=("CTT", True, True, True), adj_cls="AdjListCardinal", adj_post=False, adj_shuffle=True, ordinal=0, subset="all", permuter="both",
                          tgt_post=False, step_size="Forks", steps=("Cardinal", "Distance"), p_pre=True, p_intra=True, p_post=False),
                     ts.random_params(trng), ts.random_params(trng)]
            for p in tcfgs:
                with warnings.catch_warnings():
                    warnings.simplefilter("ignore")
                    tok = ts.build_tokenizer(p)
                n = 12
                work = []
                for (cl, s, e, sol, fam) in mazes_for(trng, n, 10):
                    work.append((cl, s, e, sol, lib.solved(cl, sol)))
                with ThreadPoolExecutor(max_workers=4) as ex:
                    outs = list(ex.map(lambda w: list(tok.to_tokens(w[4])), work * 3))
                ctx.tally("c06:threaded-tokenizations", len(outs))
                for (cl, s, e, sol, _m), toks in zip(work * 3, outs):
                    g = Graph(cl)
                    case = dict(region="full", params=p, n=n, kind="SolvedMaze", threaded=True)
                    mech = "C06/full/SolvedMaze/threaded"
                    try:
                        ctx.ev()
                        if not vocab_ok(ctx, toks, VOC, mech, case):
                            continue
                        reg = td.split_regions(toks, "SolvedMaze")
                        check_adj(ctx, td.decode_adj(reg["adj"], p), g, p, mech + "/adj", case)
                        lead, steps = td.decode_path(reg["path"], p)
                        check_path(ctx, lead, steps, sol, g, p, mech + "/path", case)
                    except td.DecodeError as ex2:
                        ctx.violation(f"{mech}/undecodable", f"{ex2}; tokens {toks[:40]}", case)
        finally:
            _sys.setswitchinterval(old_si)
    # ---- hostile: a corridor longer than the largest distance token -----------------
    if ctx.mine(3):
        cl = ref.serpentine(17, 17); g = Graph(cl); sol = g.shortest_path((0, 0), (16, 16))
        p = dict(seq="AOTP", coord="UT", adj_cls="AdjListCoord", adj_post=True, adj_shuffle=False, ordinal=1, subset="conn", permuter="sorted",
                 tgt_post=False, step_size="Forks", steps=("Distance", "Cardinal"), p_pre=False, p_intra=False, p_post=False)
        case = dict(region="full", params=p, note="17x17 serpentine corridor, one Forks step of 288 cells")
        try:
            toks = list(ts.build_tokenizer(p).to_tokens(lib.solved(cl, sol)))
            ctx.ev()
            vocab_ok(ctx, toks, VOC, "C06/long-corridor", case)
            lead, steps = td.decode_path(td.split_regions(toks, "SolvedMaze")["path"], p)
            check_path(ctx, lead, steps, sol, g, p, "C06/long-corridor", case)
        except AttributeError as ex:
            ctx.violation("C06/distance-step-exceeds-largest-distance-token", f"AttributeError: {ex}", case)
        except Exception as ex:  # noqa: BLE001
            ctx.violation(f"C06/long-corridor/exception/{type(ex).__name__}", repr(ex)[:300], case)
