"""C04 — serial dataset generation is a pure function of the configuration."""

from __future__ import annotations

import json
import os
import random
import subprocess
import sys
import warnings

import numpy as np

from .. import c04_child
from ..core import VERIF_ROOT
from ..runner import PY, shard_env

LEVEL = "exploration"
TECHNIQUE = "runtime monitoring: history-differential monitor - per-maze digests of serial generation after random histories of RNG and library use, in fresh processes and across PYTHONHASHSEED values, against a pristine-process reference; RNG-state trace at first generator entry; caller's config snapshot before/after"
RULE = ("for each configuration (all generators, kwargs, seeds {0,42,7,2^31-1,random}, endpoint options) the per-maze digests "
        "sha256(connection_list, solution) of serial generation are collected from (a) fresh interpreter processes with "
        "PYTHONHASHSEED in {0,1,4242,random} in forward and reversed config order, (b) K random in-process histories of 1-6 "
        "operations (consume python/numpy/torch RNG, reseed them, construct other configs, generate / from_config other datasets "
        "serially and in parallel, tokenize with shuffling tokenizers, call generators directly) followed by generating again; all "
        "digests of one config must be identical. from_config(cfg, load_local=False, save_local=False) must equal generate + the "
        "configured filters applied in order by hand, and neither call may change the config object passed in. "
        "non-trivial & distinct = distinct (config, history) pairs whose history has >= 1 RNG-disturbing operation")
ASSUMPTIONS = ["serial generation only (the statement excludes parallel generation)", "torch/numpy seeding is deterministic on this platform"]
NSHARDS = {"quick": 16, "thorough": 16}
OPS = ["consume-random", "consume-numpy", "consume-torch", "reseed-random", "reseed-numpy", "reseed-torch", "other-config",
       "generate-other", "from_config-other", "generate-other-parallel", "tokenize-shuffling", "call-generator", "same-config-again",
       "read-saved-dataset", "read-damaged-file", "from_config-meets-damaged-cache", "other-config-with-user-generator"]
THRESHOLDS = {"quick": {**{f"c04:op:{o}": 10 for o in OPS}, "c04:configs": 40, "c04:histories": 200, "c04:hashseeds": 3,
                        "c04:from_config": 40, "c04:verbose-runs": 60, "c04:configs>=1000-mazes": 2, "c04:configs-dedup-then-cut": 8, "c04:from_config-with-filters": 15, "c04:cfg-unchanged-checked": 200,
                        "c04:child-processes": 30, "c04:gen:gen_dfs": 1, "c04:gen:gen_wilson": 1, "c04:gen:gen_percolation": 1,
                        "c04:gen:gen_dfs_percolation": 1, "c04:gen:gen_prim": 1, "c04:trace:reseed-before-first-generator-entry": 100}}
THRESHOLDS["thorough"] = {**THRESHOLDS["quick"], "c04:configs": 400, "c04:histories": 5000}
ANCHORS = ["maze_dataset.dataset.dataset:GPTDatasetConfig.__post_init__",
           "maze_dataset.dataset.maze_dataset:MazeDataset.generate",
           "maze_dataset.dataset.dataset:GPTDataset.from_config",
           "maze_dataset.dataset.dataset:GPTDataset._apply_filters_from_config"]

GEN_SPECS = [("gen_dfs", {}), ("gen_dfs", dict(do_forks=False)), ("gen_dfs", dict(accessible_cells=10)), ("gen_dfs", dict(max_tree_depth=0.5)),
             ("gen_wilson", {}), ("gen_percolation", dict(p=1.0)), ("gen_dfs_percolation", dict(p=0.2)), ("gen_dfs_percolation", dict(p=0.5)),
             ("gen_prim", {}), ("gen_dfs", dict(randomized_stack=True)), ("gen_percolation", dict(p=0.8)), ("gen_prim", dict(accessible_cells=0.6))]
FILTER_SETS = [
    [], [],
    [dict(name="path_length", args=[3], kwargs={})],
    [dict(name="start_end_distance", args=[], kwargs=dict(min_distance=2))],
    [dict(name="truncate_count", args=[4], kwargs={}), dict(name="path_length", args=[], kwargs=dict(min_length=2))],
    [dict(name="cut_percentile_shortest", args=[], kwargs=dict(percentile=25.0)), dict(name="truncate_count", args=[5], kwargs={})],
    [dict(name="remove_duplicates_fast", args=[], kwargs={})],
    [dict(name="path_length", args=[4], kwargs={}), dict(name="start_end_distance", args=[2], kwargs={}), dict(name="truncate_count", args=[3], kwargs={})],
    # order matters: de-duplicate first, then cut (grid and count are chosen so that duplicates occur among the first mazes)
    [dict(name="remove_duplicates_fast", args=[], kwargs={}), dict(name="truncate_count", args=[6], kwargs={})],
    [dict(name="remove_duplicates_fast", args=[], kwargs={}), dict(name="truncate_count", args=[], kwargs=dict(max_count=8)), dict(name="path_length", args=[2], kwargs={})],
    [dict(name="truncate_count", args=[9], kwargs={}), dict(name="remove_duplicates_fast", args=[], kwargs={})],
]
DEDUP_SETS = (8, 9, 10)


def make_specs(ctx, n):
    specs = []
    for i in range(n):
        rng = ctx.sub_rng("spec", i)
        gen, kw = GEN_SPECS[i % len(GEN_SPECS)]
        g = int(rng.integers(2, 8))
        ek = {}
        r = rng.random()
        if r < 0.15:
            ek = dict(deadend_start=True)
        elif r < 0.3:
            ek = dict(endpoints_not_equal=True, allowed_start=[[0, 0], [g - 1, g - 1], [0, g - 1]])
        elif r < 0.4:
            ek = dict(deadend_end=True, endpoints_not_equal=True)
        seed = [0, 42, 7, 2**31 - 1, int(rng.integers(0, 2**31 - 1))][i % 5]
        fi = i % len(FILTER_SETS)
        n_mazes = int(rng.integers(1, 9))
        if fi in DEDUP_SETS:
            gen, kw, g, n_mazes, ek = ["gen_dfs", "gen_wilson", "gen_dfs"][i % 3], [{}, {}, dict(do_forks=False)][i % 3], [2, 2, 3][i % 3], int(rng.integers(14, 24)), {}
        specs.append(dict(key=f"cfg{i}", name=f"c04-{i}", gen=gen, kwargs=kw, grid_n=g, n_mazes=n_mazes, seed=seed,
                          endpoint_kwargs=ek, filters=FILTER_SETS[fi]))
    # endpoint options under which start == end can be drawn, with length filters right at the one-cell / two-cell boundary
    for t, (flt, ek) in enumerate([([dict(name="path_length", args=[2], kwargs={})], dict(deadend_start=True, deadend_end=True)),
                                   ([dict(name="path_length", args=[], kwargs=dict(min_length=1))], dict(deadend_start=True, deadend_end=True)),
                                   ([dict(name="start_end_distance", args=[1], kwargs={})], dict(allowed_start=[[0, 0], [1, 1]], allowed_end=[[0, 0], [1, 1]])),
                                   ([dict(name="path_length", args=[2], kwargs={}), dict(name="truncate_count", args=[10], kwargs={})], dict(allowed_start=[[0, 0], [2, 2]], allowed_end=[[0, 0], [2, 2]]))]):
        specs.append(dict(key=f"eq{t}", name=f"c04-eq{t}", gen=["gen_dfs", "gen_wilson"][t % 2], kwargs={}, grid_n=3, n_mazes=40, seed=21 + t,
                          endpoint_kwargs=ek, filters=flt))
    # large datasets (the sizes from which other code paths - compact serialization, progress bars, pools - kick in)
    for t, (nm, gen, g) in enumerate([(1000, "gen_dfs", 2), (1200, "gen_dfs_percolation", 3)] if n <= 100 else
                                     [(1000, "gen_dfs", 2), (1200, "gen_dfs_percolation", 3), (1000, "gen_wilson", 2), (2500, "gen_dfs", 2), (999, "gen_dfs", 3), (1001, "gen_percolation", 2)]):
        specs.append(dict(key=f"big{t}", name=f"c04-big{t}", gen=gen, kwargs=(dict(p=0.3) if "perc" in gen else {}), grid_n=g, n_mazes=nm, seed=11 + t,
                          endpoint_kwargs={}, filters=[]))
    return specs


def child(ctx, specs, hashseed):
    env = shard_env(dict(PYTHONHASHSEED=str(hashseed)))
    p = subprocess.run([PY, "-m", "vmon.c04_child"], input=json.dumps(specs), capture_output=True, text=True, env=env,
                       cwd=VERIF_ROOT, timeout=600)
    ctx.tally("c04:child-processes")
    if p.returncode != 0:
        ctx.note(f"c04 child failed rc={p.returncode}: {p.stderr[-600:]}")
        ctx.tally("shard-crash")
        return {}
    return json.loads(p.stdout[p.stdout.index("{"):])


def history_ops(ctx, rng, specs, spec, P_state):
    """apply 1-6 random operations that disturb RNG / library state; returns their names"""
    import torch
    from maze_dataset import MazeDataset, MazeDatasetConfig
    from maze_dataset.generation.generators import GENERATORS_MAP
    from maze_dataset.tokenization import MazeTokenizerModular
    from maze_dataset.tokenization.maze_tokenizer import AdjListTokenizers, EdgePermuters, PromptSequencers

    names = []
    for _ in range(int(rng.integers(1, 7))):
        op = OPS[int(rng.integers(len(OPS)))]
        names.append(op)
        k = int(rng.integers(1, 40))
        with warnings.catch_warnings():
            warnings.simplefilter("ignore")
            if op == "consume-random":
                [random.random() for _ in range(k)]
            elif op == "consume-numpy":
                np.random.rand(k)
            elif op == "consume-torch":
                torch.rand(k)
            elif op == "reseed-random":
                random.seed(int(rng.integers(1 << 30)))
            elif op == "reseed-numpy":
                np.random.seed(int(rng.integers(1 << 30)))
            elif op == "reseed-torch":
                torch.manual_seed(int(rng.integers(1 << 30)))
            elif op == "other-config":
                MazeDatasetConfig(name="other", grid_n=3, n_mazes=2, seed=int(rng.integers(1 << 30)))
            elif op in ("generate-other", "from_config-other", "generate-other-parallel"):
                o = specs[int(rng.integers(len(specs)))]
                ocfg = c04_child.make_cfg(dict(o, seed=int(rng.integers(1 << 30)), n_mazes=3), with_filters=False)
                try:
                    if op == "generate-other":
                        MazeDataset.generate(ocfg)
                    elif op == "from_config-other":
                        MazeDataset.from_config(ocfg, load_local=False, save_local=False, do_download=False)
                    else:
                        # a worker pool occasionally stalls on a loaded machine: bounded by an alarm, and then simply not part of the history
                        import signal

                        def _al(_s, _f):
                            raise TimeoutError("pool stalled")

                        old_h = signal.signal(signal.SIGALRM, _al)
                        signal.alarm(90)
                        try:
                            MazeDataset.generate(ocfg, gen_parallel=True, pool_kwargs=dict(processes=2))
                        except TimeoutError:
                            ctx.tally("c04:pool-stalled(not judged)")
                        finally:
                            signal.alarm(0)
                            signal.signal(signal.SIGALRM, old_h)
                except ValueError:
                    pass
            elif op == "tokenize-shuffling":
                tok = MazeTokenizerModular(prompt_sequencer=PromptSequencers.AOTP(
                    adj_list_tokenizer=AdjListTokenizers.AdjListCoord(shuffle_d0=True, edge_permuter=EdgePermuters.RandomCoords())))
                m = GENERATORS_MAP["gen_dfs"](np.array([4, 4]))
                tok.to_tokens(m)
            elif op == "call-generator":
                g = ["gen_dfs", "gen_wilson", "gen_percolation", "gen_dfs_percolation"][int(rng.integers(4))]
                GENERATORS_MAP[g](np.array([3, 3]))
            elif op == "other-config-with-user-generator":
                # another configuration object whose generator is the caller's own function - a wrapper around a library generator that
                # keeps its name (functools.wraps) but fixes an argument; it is only constructed and looked at, never generated
                import functools

                gname = spec["gen"] if rng.random() < 0.6 else ["gen_dfs", "gen_wilson", "gen_percolation", "gen_dfs_percolation", "gen_prim"][int(rng.integers(5))]
                lib_fn = GENERATORS_MAP[gname]

                @functools.wraps(lib_fn)
                def user_gen(grid_shape, _lib_fn=lib_fn, **kw):
                    kw.pop("start_coord", None)
                    return _lib_fn(grid_shape, start_coord=(0, 0), **kw)

                try:
                    uc = MazeDatasetConfig(name="users-own", grid_n=3, n_mazes=2, maze_ctor=user_gen, seed=int(rng.integers(1 << 30)))
                    uc.serialize()
                    uc.to_fname()
                except Exception:  # noqa: BLE001
                    ctx.tally("c04:user-generator-config-rejected(not judged)")
            elif op in ("read-saved-dataset", "read-damaged-file", "from_config-meets-damaged-cache"):
                # earlier reads of saved datasets in the same process: a good file, a half-written / foreign one the caller recovers from,
                # and the config-driven entry point finding such a file where its cache would be
                o = specs[int(rng.integers(len(specs)))]
                ocfg = c04_child.make_cfg(dict(o, seed=int(rng.integers(1 << 30)), n_mazes=2), with_filters=False)
                d = os.path.join(ctx.work, f"c04-reads-{os.getpid()}")
                os.makedirs(d, exist_ok=True)
                pth = os.path.join(d, ocfg.to_fname() + ".zanj")
                try:
                    if op == "read-saved-dataset":
                        MazeDataset.generate(ocfg).save(pth)
                        MazeDataset.read(pth)
                    else:
                        kind_bad = int(rng.integers(3))
                        if kind_bad == 0:
                            MazeDataset.generate(ocfg).save(pth)
                            blob = open(pth, "rb").read()
                            open(pth, "wb").write(blob[: max(8, len(blob) // 2)])
                        elif kind_bad == 1:
                            open(pth, "wb").write(b"not a zanj file")
                        else:
                            import zipfile
                            with zipfile.ZipFile(pth, "w") as zf:
                                zf.writestr("__zanj__.json", "{ this is not json")
                        if op == "read-damaged-file":
                            try:
                                MazeDataset.read(pth)
                                ctx.tally("c04:damaged-file-read-without-error(observed)")
                            except Exception:  # noqa: BLE001
                                ctx.tally("c04:damaged-file-read-raised")
                        else:
                            try:
                                MazeDataset.from_config(ocfg, load_local=True, save_local=False, do_download=False, local_base_path=d)
                                ctx.tally("c04:from_config-recovered-from-damaged-cache")
                            except Exception:  # noqa: BLE001
                                ctx.tally("c04:from_config-raised-on-damaged-cache")
                except ValueError:
                    pass
                finally:
                    if os.path.exists(pth):
                        os.unlink(pth)
            elif op == "same-config-again":
                try:
                    MazeDataset.generate(c04_child.make_cfg(spec, with_filters=False))
                except ValueError:
                    pass
        ctx.tally(f"c04:op:{op}")
    return names


def _rng_fingerprint():
    import hashlib
    import torch

    h = hashlib.sha256()
    h.update(repr(random.getstate()).encode())
    st = np.random.get_state()
    h.update(st[1].tobytes()); h.update(str(st[2:]).encode())
    h.update(torch.get_rng_state().numpy().tobytes())
    return h.hexdigest()[:16]


def run(ctx):
    from maze_dataset import MazeDataset
    from maze_dataset.generation.generators import LatticeMazeGenerators
    from ..probes import Probes

    n_specs = 48 if ctx.quick else 400
    K = 6 if ctx.quick else 14
    all_specs = make_specs(ctx, n_specs)
    specs = [s for i, s in enumerate(all_specs) if ctx.mine(i)]
    if not specs:
        return
    # trace monitor (diagnostic + sharpening): RNG fingerprint at first generator entry of each generate()
    P = Probes.get()
    trace = dict(armed=False, fp=None)

    def on_gen_start(fr):
        if trace["armed"]:
            trace["fp"] = _rng_fingerprint()
            trace["armed"] = False

    for gname in ("gen_dfs", "gen_wilson", "gen_percolation", "gen_dfs_percolation", "gen_prim"):
        P.on_start(getattr(LatticeMazeGenerators, gname), on_gen_start, name=gname)

    sources: dict[str, dict[str, object]] = {s["key"]: {} for s in specs}
    # (a) fresh processes, several hash seeds, two orders
    hs_list = [0, 1, 4242, int(ctx.rng.integers(1, 1 << 20))]
    for j, hs in enumerate(hs_list if not ctx.quick else hs_list[: 3 + (ctx.shard % 2)]):
        order = specs if j % 2 == 0 else list(reversed(specs))
        res = child(ctx, order, hs)
        ctx.tally("c04:hashseeds")
        for k, v in res.items():
            sources[k][f"fresh-process(PYTHONHASHSEED={hs},order={'fwd' if j % 2 == 0 else 'rev'})"] = v
    # (b) in-process histories
    for spec in specs:
        ctx.tally("c04:configs"); ctx.tally(f"c04:gen:{spec['gen']}")
        if spec["n_mazes"] >= 1000:
            ctx.tally("c04:configs>=1000-mazes")
        if spec["filters"] and any(f["name"] == "remove_duplicates_fast" for f in spec["filters"]) and len(spec["filters"]) > 1:
            ctx.tally("c04:configs-dedup-then-cut")
        entry_fps = set()
        for h in range(K):
            rng = ctx.sub_rng("hist", spec["key"], h)
            with warnings.catch_warnings():
                warnings.simplefilter("ignore")
                cfg = c04_child.make_cfg(spec, with_filters=False)
                before = json.dumps(cfg.serialize(), sort_keys=True, default=str)
                filters_id = id(cfg.applied_filters)
                try:
                    ops = history_ops(ctx, rng, all_specs, spec, None) if h else []
                    trace["armed"] = True; trace["fp"] = None
                    ds = MazeDataset.generate(cfg, gen_parallel=False)
                    trace["armed"] = False
                    dig = c04_child.digest_mazes(ds.mazes)
                    if trace["fp"] is not None:
                        entry_fps.add(trace["fp"])
                    if h % 2 == 1:
                        # the dataset that was handed back is used further by the caller (filtered, its metadata collected in place,
                        # written in a compact format) before the configuration object is compared with what it was
                        try:
                            sub_ = ds.filter_by.path_length(min_length=0)
                            sub_.filter_by.truncate_count(1)
                            ds.filter_by.collect_generation_meta()
                            ds._serialize_minimal()
                            ctx.tally("c04:result-used-further-before-config-compared")
                        except Exception:  # noqa: BLE001
                            ctx.tally("c04:result-further-use-failed(not judged)")
                except Exception as e:  # noqa: BLE001
                    dig = f"EXC:{type(e).__name__}:{str(e)[:200]}"
                    ops = ops if "ops" in dir() else []
                after = json.dumps(cfg.serialize(), sort_keys=True, default=str)
            ctx.ev(); ctx.tally("c04:histories"); ctx.tally("c04:cfg-unchanged-checked")
            sources[spec["key"]][f"in-process(history={ops})"] = dig
            if ops:
                ctx.nontrivial(spec["key"], tuple(ops))
            ctx.check(before == after and id(cfg.applied_filters) == filters_id, "C04/generate-modified-config",
                      lambda: f"before={before[:300]} after={after[:300]}", dict(spec=spec, ops=ops))
            if h == 1 and len(ctx.samples) < 3:
                ctx.sample(dict(spec=spec, history=ops, digest=dig if isinstance(dig, str) else dig[:2]))
        # trace: the RNG state at the first generator entry must be the same for every history (reseed happened after the last foreign event)
        if entry_fps:
            ctx.tally("c04:trace:reseed-before-first-generator-entry", K)
            # diagnostic only (DESIGN C04): an implementation that feeds its generators from a private, seeded RNG would
            # legitimately enter them with a history-dependent *global* state, so this is reported, not judged
            if len(entry_fps) == 1:
                ctx.tally("c04:trace:global-rng-identical-at-entry")
            else:
                ctx.tally("c04:trace:global-rng-differs-at-entry(not judged)")
        # switches that are not part of the configuration (progress output) may not change what is generated
        if spec["n_mazes"] <= 60:
            import contextlib
            import io

            with warnings.catch_warnings():
                warnings.simplefilter("ignore")
                for how in ("generate(verbose=True)", "from_config(verbose=True)"):
                    try:
                        cfgv = c04_child.make_cfg(spec, with_filters=False)
                        with contextlib.redirect_stdout(io.StringIO()), contextlib.redirect_stderr(io.StringIO()):
                            dsv = MazeDataset.generate(cfgv, gen_parallel=False, verbose=True) if how.startswith("generate") else \
                                MazeDataset.from_config(cfgv, load_local=False, save_local=False, do_download=False, verbose=True)
                        sources[spec["key"]][f"in-process({how})"] = c04_child.digest_mazes(dsv.mazes)
                        ctx.tally("c04:verbose-runs")
                    except TypeError:
                        ctx.tally("c04:verbose-switch-unavailable(not judged)")
                    except Exception as e:  # noqa: BLE001
                        sources[spec["key"]][f"in-process({how})"] = f"EXC:{type(e).__name__}:{str(e)[:200]}"
        # verdict for this config
        vals = sources[spec["key"]]
        groups: dict[str, list[str]] = {}
        for src, d in vals.items():
            groups.setdefault(json.dumps(d), []).append(src)
        if len(groups) > 1:
            desc = "; ".join(f"{v[:3]} -> {k[:80]}" for k, v in list(groups.items())[:4])
            kinds = sorted({("process" if s.startswith("fresh") else "history") for g in list(groups.values())[1:] for s in g})
            ctx.violation("C04/serial-generation-not-deterministic/" + "+".join(kinds), f"{len(groups)} different results for one config: {desc}", dict(spec=spec))
        elif any(isinstance(d, str) and d.startswith("EXC") for d in vals.values()):
            ctx.tally("rejected:C04/generate")
        _from_config(ctx, spec)


def _from_config(ctx, spec):
    from maze_dataset import MazeDataset

    with warnings.catch_warnings():
        warnings.simplefilter("ignore")
        case = dict(spec=spec)
        try:
            cfg = c04_child.make_cfg(spec, with_filters=True)
            before = json.dumps(cfg.serialize(), sort_keys=True, default=str)
            fl_before = [dict(name=f["name"], args=tuple(f["args"]), kwargs=dict(f["kwargs"])) for f in cfg.applied_filters]
            fl_id = id(cfg.applied_filters)
            # some unrelated history in between
            np.random.rand(7); random.random()
            got = MazeDataset.from_config(cfg, load_local=False, save_local=False, do_download=False)
            after = json.dumps(cfg.serialize(), sort_keys=True, default=str)
            ctx.ev(); ctx.tally("c04:from_config"); ctx.tally("c04:cfg-unchanged-checked")
            if spec["filters"]:
                ctx.tally("c04:from_config-with-filters")
            ctx.check(before == after and id(cfg.applied_filters) == fl_id and
                      [dict(name=f["name"], args=tuple(f["args"]), kwargs=dict(f["kwargs"])) for f in cfg.applied_filters] == fl_before,
                      "C04/from_config-modified-config", lambda: f"before={before[-400:]} after={after[-400:]}", case)
            # by hand: generate without filters, then each filter in order
            base = MazeDataset.generate(c04_child.make_cfg(spec, with_filters=False))
            hand = base
            for f in spec["filters"]:
                hand = getattr(hand.filter_by, f["name"])(*f.get("args", ()), **f.get("kwargs", {}))
            dg, dh = c04_child.digest_mazes(got.mazes), c04_child.digest_mazes(hand.mazes)
            ctx.check(dg == dh, "C04/from_config-differs-from-generate-plus-filters",
                      lambda: f"from_config gave {len(dg)} mazes {dg[:3]}, by hand {len(dh)} mazes {dh[:3]}", case)
            # independent reference for the simple filters (order-sensitive)
            exp = list(range(len(base.mazes)))
            simple = True
            for f in spec["filters"]:
                a = list(f.get("args", ())); kw = f.get("kwargs", {})
                if f["name"] == "path_length":
                    k = a[0] if a else kw["min_length"]
                    exp = [i for i in exp if len(base.mazes[i].solution) >= k]
                elif f["name"] == "start_end_distance":
                    k = a[0] if a else kw["min_distance"]
                    exp = [i for i in exp if int(np.abs(np.asarray(base.mazes[i].solution[0]) - np.asarray(base.mazes[i].solution[-1])).sum()) >= k]
                elif f["name"] == "truncate_count":
                    k = a[0] if a else kw["max_count"]
                    exp = exp[:k]
                else:
                    simple = False
                    break
            if simple:
                db = c04_child.digest_mazes(base.mazes)
                ctx.check(dg == [db[i] for i in exp], "C04/from_config-filters-not-applied-in-order",
                          lambda: f"from_config kept {len(dg)}, reference keeps indices {exp}", case)
        except ValueError:
            ctx.tally("rejected:C04/from_config:ValueError")
        except Exception as e:  # noqa: BLE001
            import traceback
            ctx.violation(f"C04/from_config/exception/{type(e).__name__}", traceback.format_exc()[-1500:], case)
