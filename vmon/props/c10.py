"""C10 — pixel and ASCII renderings are faithful and invertible."""

from __future__ import annotations

import numpy as np

from .. import lib, ref
from ..ref import Graph

LEVEL = "exploration"
TECHNIQUE = 'runtime monitoring: per-pixel reference renderer judges as_pixels/as_ascii; from_pixels/from_ascii round trips; exhaustive over all structures on grids up to 3x3, sampled to 12x12, all flag combinations, repeated renderings of one object'
RULE = ("as_pixels / as_ascii of all three maze kinds compared pixel by pixel (character by character) with an oracle written from "
        "the statement, for every accepted (show_endpoints, show_solution) combination (the rejected one must raise ValueError); "
        "from_pixels / from_ascii of the full rendering must return the same kind, connection structure, start, end and solution "
        "order when start != end and the solution is a shortest path. Structures: every structure on every grid with <= 12 lattice "
        "edges (untargeted: all; targeted/solved: sampled start/end pairs in quick, all in thorough) plus random tree/cyclic/"
        "percolation mazes up to 12x12 incl. oblong and 1xn, two-cell solutions included. "
        "non-trivial & distinct = distinct (kind, connection structure, start, end, solution, flags) renderings")
ASSUMPTIONS = ["when start == end the colour of that cell is unspecified (START or END accepted); round trip only claimed for start != end",
               "solutions rendered are valid walks (consecutive cells connected)"]
NSHARDS = {"quick": 16, "thorough": 16}
THRESHOLDS = {"quick": {"c10:subclass-instances": 300, "c10:int8-coordinates": 2000, "c10:roundtrips-under-python-O": 60, 
    "c10:render:LatticeMaze": 6541, "c10:render:TargetedLatticeMaze": 3000, "c10:render:SolvedMaze": 3000,
    "c10:flags:SolvedMaze:TT": 500, "c10:flags:SolvedMaze:TF": 500, "c10:flags:SolvedMaze:FF": 500,
    "c10:flags:TargetedLatticeMaze:TT": 300, "c10:flags:TargetedLatticeMaze:TF": 300, "c10:flags:TargetedLatticeMaze:FF": 300,
    "c10:rejected-combo-raises": 500, "c10:oblong": 100, "c10:two-cell-path": 100, "c10:roundtrip:pixels": 2000,
    "c10:roundtrip:ascii": 2000, "c10:ascii": 5000, "c10:one-cell-path": 20, "c10:bw-pixels": 100,
}}
THRESHOLDS["thorough"] = dict(THRESHOLDS["quick"])
ANCHORS = ["maze_dataset.maze.lattice_maze:LatticeMaze._as_pixels_bw", "maze_dataset.maze.lattice_maze:LatticeMaze.as_pixels",
           "maze_dataset.maze.lattice_maze:LatticeMaze._from_pixel_grid_bw",
           "maze_dataset.maze.lattice_maze:LatticeMaze._from_pixel_grid_with_positions",
           "maze_dataset.maze.lattice_maze:LatticeMaze.from_pixels", "maze_dataset.maze.lattice_maze:LatticeMaze.as_ascii",
           "maze_dataset.maze.lattice_maze:LatticeMaze.from_ascii", "maze_dataset.maze.lattice_maze:detect_pixels_type"]
AMBIENT = dict(generators=False, solver=False, solved=False)
FLAGS = [(True, True), (True, False), (False, False)]


def _cmp_img(ctx, got, exp, same_cell, mech, case):
    got = np.asarray(got)
    if not ctx.check(got.shape == exp.shape, f"{mech}/wrong-size", f"got {got.shape} expected {exp.shape}", case):
        return False
    if np.array_equal(got, exp):
        return True
    diff = np.argwhere((got != exp).any(axis=-1))
    if same_cell is not None:
        # start == end: either colour is fine at that pixel
        px = (2 * same_cell[0] + 1, 2 * same_cell[1] + 1)
        diff = [d for d in diff if tuple(d) != px or tuple(int(v) for v in got[px]) not in (ref.START, ref.END)]
        if len(diff) == 0:
            return True
    d0 = tuple(int(x) for x in diff[0])
    kind = ("cell" if d0[0] % 2 and d0[1] % 2 else "corner" if not d0[0] % 2 and not d0[1] % 2 else "between")
    expc = ref.ASCII_OF.get(tuple(int(v) for v in exp[d0]), "?")
    gotc = ref.ASCII_OF.get(tuple(int(v) for v in got[d0]), "?")
    ctx.violation(f"{mech}/pixel-differs/{kind}/expected-{expc!r}-got-{gotc!r}",
                  f"{len(diff)} pixels differ; first at {d0}: got {got[d0].tolist()} expected {exp[d0].tolist()}\n"
                  f"expected:\n{ref.ascii_of(exp)}\ngot:\n{ref.ascii_of(got)}", case)
    return False


_DT = [0]


def check_maze(ctx, kind, cl, s, e, path, case, roundtrip=True):
    from maze_dataset.maze.lattice_maze import LatticeMaze, SolvedMaze, TargetedLatticeMaze

    R, C = cl.shape[1:]
    _DT[0] += 1
    int8 = (_DT[0] % 3 == 0)   # coordinates stored as int8: what mazes hold after a trip through the compact on-disk formats
    if kind == "LatticeMaze":
        m = lib.lattice(cl); cls = LatticeMaze
    elif kind == "TargetedLatticeMaze":
        cls = TargetedLatticeMaze
        if int8:
            ctx.tally("c10:int8-coordinates")
            m = TargetedLatticeMaze(connection_list=np.array(cl, dtype=bool), start_pos=np.array(s, dtype=np.int8), end_pos=np.array(e, dtype=np.int8))
        else:
            m = lib.targeted(cl, s, e)
    else:
        cls = SolvedMaze
        if int8:
            ctx.tally("c10:int8-coordinates")
            m = SolvedMaze(connection_list=np.array(cl, dtype=bool), solution=np.array(path, dtype=np.int8))
        elif _DT[0] % 7 == 1:
            ctx.tally("c10:subclass-instances")
            m = lib.solved_subclass(cl, path)
        else:
            m = lib.solved(cl, path)
    st = s if kind != "LatticeMaze" else None
    en = e if kind != "LatticeMaze" else None
    sol = path if kind == "SolvedMaze" else None
    same = tuple(s) if (st is not None and tuple(s) == tuple(e)) else None
    if R != C:
        ctx.tally("c10:oblong")
    if sol is not None and len(sol) == 2:
        ctx.tally("c10:two-cell-path")
    if sol is not None and len(sol) == 1:
        ctx.tally("c10:one-cell-path")
    full_img = None
    for (se, ss) in FLAGS:
        tag = f"{'T' if se else 'F'}{'T' if ss else 'F'}"
        exp = ref.pixels(cl, st, en, sol, se, ss)
        c2 = dict(case, flags=dict(show_endpoints=se, show_solution=ss))
        with ctx.guard(f"C10/as_pixels/{kind}/{tag}", c2):
            got = m.as_pixels(show_endpoints=se, show_solution=ss)
            ctx.ev(); ctx.tally(f"c10:render:{kind}"); ctx.tally(f"c10:flags:{kind}:{tag}")
            ctx.nontrivial(kind, cl, s, e, path, tag)
            ok = _cmp_img(ctx, got, exp, same, f"C10/as_pixels/{kind}/{tag}", c2)
            if (se, ss) == (True, True) and ok:
                full_img = np.asarray(got)
        with ctx.guard(f"C10/as_ascii/{kind}/{tag}", c2):
            txt = m.as_ascii(show_endpoints=se, show_solution=ss)
            ctx.ev(); ctx.tally("c10:ascii")
            exp_txt = ref.ascii_of(exp)
            if txt != exp_txt and same is not None:
                # tolerate S vs E on the shared cell
                i = (2 * same[0] + 1) * (2 * C + 2) + 2 * same[1] + 1
                if len(txt) == len(exp_txt) and txt[:i] == exp_txt[:i] and txt[i + 1:] == exp_txt[i + 1:] and txt[i] in "SE":
                    exp_txt = txt
            ctx.check(txt == exp_txt, f"C10/as_ascii/{kind}/{tag}/differs", lambda: f"expected:\n{exp_txt}\ngot:\n{txt}", c2)
    # the combination the API rejects
    try:
        m.as_pixels(show_endpoints=False, show_solution=True)
        ctx.violation("C10/rejected-combination-accepted", "show_solution=True, show_endpoints=False did not raise", case)
    except ValueError:
        ctx.tally("c10:rejected-combo-raises")
    except Exception as ex:  # noqa: BLE001
        ctx.violation(f"C10/rejected-combination-wrong-exception/{type(ex).__name__}", repr(ex)[:300], case)
    # round trips
    if not roundtrip or full_img is None or (same is not None):
        return
    for via in ("pixels", "ascii"):
        with ctx.guard(f"C10/roundtrip/{via}/{kind}", case):
            if via == "pixels":
                back = cls.from_pixels(full_img)
            else:
                back = cls.from_ascii(ref.ascii_of(full_img))
            ctx.ev(); ctx.tally(f"c10:roundtrip:{via}")
            mech = f"C10/roundtrip/{via}/{kind}"
            if not ctx.check(type(back) is cls, f"{mech}/wrong-kind", f"got {type(back).__name__}", case):
                continue
            ctx.check(back.connection_list.shape == cl.shape and np.array_equal(back.connection_list, cl),
                      f"{mech}/connection-list-differs", lambda: f"got {back.connection_list.astype(int).tolist()}", case)
            if kind != "LatticeMaze":
                ctx.check(tuple(int(x) for x in back.start_pos) == tuple(s) and tuple(int(x) for x in back.end_pos) == tuple(e),
                          f"{mech}/ends-differ", lambda: f"got {back.start_pos}->{back.end_pos} expected {s}->{e}", case)
            if kind == "SolvedMaze":
                got = [tuple(int(x) for x in p) for p in back.solution]
                ctx.check(got == [tuple(p) for p in path], f"{mech}/solution-differs", lambda: f"got {got} expected {path}", case)
    if kind == "LatticeMaze":
        # the binary (2-d) pixel grid form
        with ctx.guard("C10/roundtrip/bw", case):
            bw = (full_img != 0).any(axis=-1)
            back = LatticeMaze.from_pixels(bw)
            ctx.ev(); ctx.tally("c10:bw-pixels")
            ctx.check(np.array_equal(back.connection_list, cl), "C10/roundtrip/bw/connection-list-differs", "", case)


def _optimised_interpreter(ctx):
    """the same round trips in a child interpreter started with -O (assert statements are not executed there): reading back a
    picture of a valid solved maze must not depend on it"""
    import json
    import subprocess

    from ..core import VERIF_ROOT
    from ..runner import PY, shard_env

    code = (
        "import json,sys,warnings; warnings.filterwarnings('ignore'); import numpy as np\n"
        "from vmon import ref; from vmon.ref import Graph\n"
        "from maze_dataset.maze.lattice_maze import SolvedMaze, TargetedLatticeMaze, LatticeMaze\n"
        "rng=np.random.default_rng(int(sys.argv[1])); bad=[]; n=0\n"
        "for t in range(60):\n"
        "    R=int(rng.integers(2,9)); C=R if t%3 else int(rng.integers(1,9))\n"
        "    fam=['tree','cyc3','perc8'][t%3]; _,cl=ref.random_structure(R,C,rng,fam); g=Graph(cl)\n"
        "    cells=ref.all_cells(R,C); s=cells[int(rng.integers(len(cells)))]; comp=sorted(g.component_of(s)); e=comp[int(rng.integers(len(comp)))]\n"
        "    if s==e: continue\n"
        "    path=g.shortest_path(s,e,rng); m=SolvedMaze(connection_list=cl,solution=np.array(path))\n"
        "    for via in ('pixels','ascii'):\n"
        "        n+=1\n"
        "        try:\n"
        "            b=SolvedMaze.from_pixels(m.as_pixels()) if via=='pixels' else SolvedMaze.from_ascii(m.as_ascii())\n"
        "            ok=type(b) is SolvedMaze and np.array_equal(b.connection_list,cl) and [tuple(int(x) for x in p) for p in b.solution]==[tuple(p) for p in path]\n"
        "        except Exception as ex:\n"
        "            ok=False; b=repr(ex)[:100]\n"
        "        if not ok: bad.append(dict(via=via,shape=[R,C],s=list(s),e=list(e),got=str(getattr(b,'solution',b))[:120],expected=str(path)[:120]))\n"
        "print(json.dumps(dict(n=n,bad=bad[:5],nbad=len(bad),optimised=not __debug__)))\n"
    )
    p = subprocess.run([PY, "-O", "-c", code, str(ctx.case_seed("opt") % 10**6)], capture_output=True, text=True, env=shard_env(), cwd=VERIF_ROOT, timeout=600)
    if p.returncode != 0 or "{" not in p.stdout:
        ctx.tally("c10:optimised-child-failed(not judged)")
        ctx.note(f"-O child failed: {p.stderr[-300:]}")
        return
    r = json.loads(p.stdout[p.stdout.index("{"):])
    ctx.ev(r["n"]); ctx.tally("c10:roundtrips-under-python-O", r["n"])
    ctx.check(r["nbad"] == 0, "C10/roundtrip/under-python-O/solution-or-structure-differs",
              f"{r['nbad']} of {r['n']} round trips of solved mazes differ in an interpreter started with -O: {r['bad'][:2]}", dict(examples=r["bad"]))


def _foreign_drawings_first(ctx):
    """history, before anything else is drawn in this process: text drawings that use other characters (box drawing with + - |, dots
    for open cells, a drawing without S / E offered to the solved-maze reader, ragged lines) are offered to the readers, which accept
    or refuse them; pictures with foreign colours likewise.  Every drawing made afterwards is judged as usual."""
    from maze_dataset.maze.lattice_maze import LatticeMaze, SolvedMaze, TargetedLatticeMaze

    texts = ["+-+-+\n|   |\n+ + +\n| | |\n+-+-+", "#####\n#. .#\n# # #\n#.#.#\n#####", "#####\n#   #\n# ###\n#   #\n#####",
             "XXXXX\nX   X\nX X X\nX X X\nXXXXX", "#####\n#S  #\n###?#\n#  E#\n#####", "###\n# #\n##", "#######\n#S*E  #\n#######"]
    for t in texts:
        for cls in (LatticeMaze, TargetedLatticeMaze, SolvedMaze):
            try:
                cls.from_ascii(t)
                ctx.tally("c10:history:foreign-drawing-accepted")
            except Exception:  # noqa: BLE001
                ctx.tally("c10:history:foreign-drawing-refused")
    for val in ((7, 7, 7), (255, 0, 255), (1, 2, 3)):
        px = np.zeros((5, 5, 3), dtype=np.uint8)
        px[1:4, 1:4] = 255
        px[2, 2] = val
        for cls in (LatticeMaze, TargetedLatticeMaze, SolvedMaze):
            try:
                cls.from_pixels(px.copy())
                ctx.tally("c10:history:foreign-picture-accepted")
            except Exception:  # noqa: BLE001
                ctx.tally("c10:history:foreign-picture-refused")


def run(ctx):
    if ctx.shard % 2 == 0:
        _foreign_drawings_first(ctx)
    if ctx.shard == 1:
        _optimised_interpreter(ctx)
    k = 0
    for (R, C) in ref.EXH_SHAPES:
        slots = ref.lattice_edge_slots(R, C)
        cells = ref.all_cells(R, C)
        for mask in range(1 << len(slots)):
            k += 1
            if not ctx.mine(k):
                continue
            cl = ref.cl_from_mask(R, C, mask, slots)
            g = Graph(cl)
            rng = ctx.sub_rng("exh", R, C, mask)
            case = dict(kind="exh", shape=(R, C), mask=mask)
            check_maze(ctx, "LatticeMaze", cl, None, None, None, case)
            pairs = [(s, e) for s in cells for e in cells if s != e and e in g.component_of(s)]
            if ctx.quick and len(pairs) > 2:
                take = 2 if len(slots) >= 10 else 4
                idx = rng.choice(len(pairs), size=min(take, len(pairs)), replace=False)
                pairs = [pairs[int(i)] for i in idx]
            for (s, e) in pairs:
                path = g.shortest_path(s, e, rng)
                c2 = dict(case, s=s, e=e, path=path)
                check_maze(ctx, "TargetedLatticeMaze", cl, s, e, None, c2)
                check_maze(ctx, "SolvedMaze", cl, s, e, path, c2)
            # targeted mazes may have ends in different components
            if R * C >= 2 and mask % 5 == 0:
                s, e = [cells[int(i)] for i in rng.choice(len(cells), size=2, replace=False)]
                check_maze(ctx, "TargetedLatticeMaze", cl, s, e, None, dict(case, s=s, e=e))
            if k % 2111 == 0:
                ctx.sample(dict(case=case, cl=cl, n_pairs=len(pairs)))
    n_big = 1000 if ctx.quick else 12000
    for j in range(n_big):
        if not ctx.mine(j):
            continue
        rng = ctx.sub_rng("big", j)
        if j % 3 == 0:
            R, C = int(rng.integers(1, 13)), int(rng.integers(1, 13))
        else:
            R = C = int(rng.integers(2, 13))
        fam = ["tree", "cyc1", "cyc3", "cycN", "perc4", "perc6", "perc8", "full", "serpentine", "spiral"][j % 10]
        fam, cl = ref.random_structure(R, C, rng, fam)
        g = Graph(cl)
        cells = ref.all_cells(R, C)
        case = dict(kind="big", family=fam, shape=(R, C), cl=cl)
        check_maze(ctx, "LatticeMaze", cl, None, None, None, case)
        for t in range(4):
            s = cells[int(rng.integers(len(cells)))]
            comp = sorted(g.component_of(s))
            if t == 0 and g.adj[s]:
                e = g.adj[s][int(rng.integers(len(g.adj[s])))]  # two-cell solution
            elif t == 1:
                e = s  # one-cell solution (rendering only)
            else:
                e = comp[int(rng.integers(len(comp)))]
            path = g.shortest_path(s, e, rng)
            c2 = dict(case, s=s, e=e, path=path)
            check_maze(ctx, "TargetedLatticeMaze", cl, s, e, None, c2)
            check_maze(ctx, "SolvedMaze", cl, s, e, path, c2)
        # a non-shortest but valid self-avoiding walk: rendering only
        s = cells[int(rng.integers(len(cells)))]
        walk = [s]; seen = {s}
        for _ in range(int(rng.integers(1, 2 * (R + C)))):
            nb = [v for v in g.adj[walk[-1]] if v not in seen]
            if not nb:
                break
            walk.append(nb[int(rng.integers(len(nb)))]); seen.add(walk[-1])
        check_maze(ctx, "SolvedMaze", cl, walk[0], walk[-1], walk, dict(case, walk=walk), roundtrip=False)
        if j < 2:
            ctx.sample(dict(case=case))
