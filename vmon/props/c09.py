"""C09 — maze objects are values: total structural equality, consistent hash, valid ends."""

from __future__ import annotations

import copy
import warnings

import numpy as np

from .. import lib, ref
from ..ref import Graph

LEVEL = "exploration"
TECHNIQUE = 'runtime monitoring: equality/hash/constructor monitor against reference structural equality over generated pair classes (identical, equal copy, one bit / endpoint / solution cell / kind / metadata different) and endpoint coordinates inside and outside the grid'
RULE = ("pairs of maze objects of all three kinds (identical object, equal copies, one connection bit flipped, one endpoint moved, "
        "one solution cell changed, different solution length, different grid shape, different kind with the same data, "
        "metadata-only difference) on shapes 1x1..8x8 incl. oblong: ==/!= must not raise and must equal reference equality "
        "(same class and np.array_equal on connection_list/start/end/solution, metadata ignored); hash() must not raise and agree "
        "on equal mazes; set()/dict.fromkeys de-duplicate to the number of reference-distinct mazes; MazeDataset == ; "
        "the same on 23..40-cell-a-side grids with differences far from the array corners / solution ends (mazes and datasets, "
        "also same mazes in another order, metadata-only and dtype-only differences); mazes built - and for half of them already used as "
        "set members - in another interpreter with another PYTHONHASHSEED, pickled and loaded here must equal, hash like and de-duplicate "
        "with the same mazes built here; constructors with endpoint coordinates from {-3..n+2}^2 must raise ValueError iff a coordinate is outside the grid. "
        "non-trivial & distinct = distinct (pair class, kind, data) pairs of two different objects")
ASSUMPTIONS = ["reference equality is the statement's: same kind, identical connection structure, start, end and solution"]
NSHARDS = {"quick": 16, "thorough": 16}
_PAIR = ["identical", "copy", "copy-dtype", "copy-layout", "bitflip", "endpoint", "solcell", "sollen", "shape", "kind", "meta"]
THRESHOLDS = {"quick": {**{f"c09:pair:{p}": 50 for p in _PAIR}, "c09:hash:LatticeMaze": 100, "c09:pair:other-route": 600, "c09:loader-ctor:negative": 40, "c09:loader-ctor:too-large": 25, "c09:hash:TargetedLatticeMaze": 100,
                        "c09:hash:SolvedMaze": 100, "c09:set-dedup": 100, "c09:dataset-eq": 30, "c09:ctor:in-range": 300,
                        "c09:ctor:negative": 300, "c09:ctor:too-large": 300, "c09:ctor:solved": 200, "c09:big-pairs": 40, "c09:dataset-eq-big": 40,
                        "c09:travelled:hashed-first": 10, "c09:travelled:never-hashed": 10, "c09:caller-arrays": 300, "c09:dataset-boundary-shift": 8}}
THRESHOLDS["thorough"] = dict(THRESHOLDS["quick"])
ANCHORS = ["maze_dataset.maze.lattice_maze:TargetedLatticeMaze.__post_init__",
           "maze_dataset.maze.lattice_maze:LatticeMaze.__hash__",
           "maze_dataset.maze.lattice_maze:SolvedMaze.__hash__",
           "maze_dataset.dataset.maze_dataset:MazeDataset.__eq__"]
AMBIENT = dict(generators=False, solver=False, solved=False)

KINDS = ("LatticeMaze", "TargetedLatticeMaze", "SolvedMaze")


def _data(rng, R=None, C=None):
    """random maze data: cl + shortest path between two cells of one component"""
    R = R or int(rng.integers(1, 9))
    C = C or (R if rng.random() < 0.6 else int(rng.integers(1, 9)))
    fam = ["tree", "cyc3", "perc6", "perc8", "full"][int(rng.integers(5))]
    _, cl = ref.random_structure(R, C, rng, fam)
    g = Graph(cl)
    cells = ref.all_cells(R, C)
    s = cells[int(rng.integers(len(cells)))]
    comp = sorted(g.component_of(s))
    e = comp[int(rng.integers(len(comp)))]
    path = g.shortest_path(s, e, rng)
    return dict(cl=cl, s=s, e=e, path=path)


def _make(kind, d, meta=None, dtype=None):
    from maze_dataset.maze.lattice_maze import LatticeMaze, SolvedMaze, TargetedLatticeMaze

    cl = np.array(d["cl"], dtype=bool)
    if kind == "LatticeMaze":
        return LatticeMaze(connection_list=cl, generation_meta=meta)
    if kind == "TargetedLatticeMaze":
        return TargetedLatticeMaze(connection_list=cl, start_pos=np.array(d["s"], dtype=dtype), end_pos=np.array(d["e"], dtype=dtype), generation_meta=meta)
    return SolvedMaze(connection_list=cl, solution=np.array(d["path"], dtype=dtype), generation_meta=meta)


def _make_layout(kind, d):
    from maze_dataset.maze.lattice_maze import LatticeMaze, SolvedMaze, TargetedLatticeMaze

    cl = np.asfortranarray(np.array(d["cl"], dtype=bool))
    if kind == "LatticeMaze":
        return LatticeMaze(connection_list=cl)
    if kind == "TargetedLatticeMaze":
        return TargetedLatticeMaze(connection_list=cl, start_pos=np.array([d["s"], d["e"]]).T[:, 0], end_pos=np.array([d["s"], d["e"]]).T[:, 1])
    rows = [p[0] for p in d["path"]]; cols = [p[1] for p in d["path"]]
    sol = np.array([rows, cols]).T          # F-ordered view with the same cells
    return SolvedMaze(connection_list=cl, solution=sol)


def _ref_eq(k1, d1, k2, d2):
    if k1 != k2:
        return False
    if d1["cl"].shape != d2["cl"].shape or not np.array_equal(d1["cl"], d2["cl"]):
        return False
    if k1 == "LatticeMaze":
        return True
    if k1 == "TargetedLatticeMaze":
        return tuple(d1["s"]) == tuple(d2["s"]) and tuple(d1["e"]) == tuple(d2["e"])
    return [tuple(c) for c in d1["path"]] == [tuple(c) for c in d2["path"]]


def _mutate(pc, kind, d, rng):
    """returns (kind2, d2) for pair class pc, or None if not applicable"""
    d2 = dict(cl=d["cl"].copy(), s=d["s"], e=d["e"], path=list(d["path"]))
    R, C = d["cl"].shape[1:]
    g = Graph(d["cl"])
    if pc in ("identical", "copy", "meta", "copy-dtype", "copy-layout"):
        return kind, d2
    if pc == "bitflip":
        slots = ref.lattice_edge_slots(R, C)
        if not slots:
            return None
        # flip an edge that is not on the path so the path stays a walk (not required, but keeps data sane)
        on_path = {ref.slot_of(a, b) for a, b in zip(d["path"][:-1], d["path"][1:])}
        cand = [s for s in slots if s not in on_path] or slots
        s = cand[int(rng.integers(len(cand)))]
        d2["cl"][s] = not d2["cl"][s]
        return kind, d2
    if pc == "endpoint":
        if kind != "TargetedLatticeMaze" or R * C < 2:
            return None
        cells = [c for c in ref.all_cells(R, C) if c != d["e"]]
        d2["e"] = cells[int(rng.integers(len(cells)))]
        return kind, d2
    if pc == "solcell":
        if kind != "SolvedMaze":
            return None
        i = int(rng.integers(len(d["path"])))
        cells = [c for c in ref.all_cells(R, C) if c != d["path"][i]]
        if not cells:
            return None
        p = list(d["path"]); p[i] = cells[int(rng.integers(len(cells)))]
        d2["path"] = p
        return kind, d2
    if pc == "sollen":
        if kind != "SolvedMaze":
            return None
        p = list(d["path"])
        if len(p) >= 2 and rng.random() < 0.5:
            p = p[:-1]
        else:
            nb = g.adj[p[-1]] or [p[-1]]
            p = p + [nb[int(rng.integers(len(nb)))]]
        d2["path"] = p
        return kind, d2
    if pc == "shape":
        # same data embedded in a grid with one more row or column
        R2, C2 = (R + 1, C) if rng.random() < 0.5 else (R, C + 1)
        cl2 = np.zeros((2, R2, C2), dtype=bool)
        cl2[:, :R, :C] = d["cl"]
        d2["cl"] = cl2
        return kind, d2
    if pc == "kind":
        others = [k for k in KINDS if k != kind]
        return others[int(rng.integers(2))], d2
    raise AssertionError(pc)


def _eq_ops(ctx, a, b, exp, case):
    ok = True
    for opname, op, want in (("==", lambda x, y: x == y, exp), ("!=", lambda x, y: x != y, not exp),
                             ("==r", lambda x, y: y == x, exp)):
        try:
            r = op(a, b)
        except Exception as e:  # noqa: BLE001
            ctx.violation(f"C09/eq-raises/{type(e).__name__}", f"{opname} raised {type(e).__name__}: {str(e)[:200]}", case)
            ok = False
            continue
        ctx.ev()
        if not isinstance(r, (bool, np.bool_)):
            ctx.violation("C09/eq-not-bool", f"{opname} returned {type(r).__name__}: {r!r}"[:300], case)
            ok = False
            continue
        if bool(r) != want:
            ctx.violation(f"C09/eq-wrong/{'false-positive' if (bool(r) if opname != '!=' else not bool(r)) else 'false-negative'}",
                          f"{opname} returned {r}, reference equality says {exp}", case)
            ok = False
    return ok


def _hash(ctx, m, case):
    try:
        h = hash(m)
        ctx.ev()
        ctx.tally(f"c09:hash:{type(m).__name__}")
        return h
    except Exception as e:  # noqa: BLE001
        ctx.violation(f"C09/hash-raises/{type(m).__name__}/{type(e).__name__}", f"{type(e).__name__}: {str(e)[:200]}", case)
        return None


def run(ctx):
    n_pairs = 6000 if ctx.quick else 120000
    for i in range(n_pairs):
        if not ctx.mine(i):
            continue
        rng = ctx.sub_rng("pair", i)
        pc = _PAIR[i % len(_PAIR)]
        kind = {"endpoint": "TargetedLatticeMaze", "solcell": "SolvedMaze", "sollen": "SolvedMaze"}.get(pc) or KINDS[int(rng.integers(3))]
        d = _data(rng)
        mut = _mutate(pc, kind, d, rng)
        if mut is None:
            continue
        kind2, d2 = mut
        case = dict(pair_class=pc, kind=kind, kind2=kind2, d1=d, d2=d2)
        try:
            a = _make(kind, d, meta=dict(func_name="x", k=1) if pc == "meta" else None)
            if pc == "identical":
                b = a
            elif pc == "meta":
                b = _make(kind2, d2, meta=dict(func_name="y", k=2, visited_cells={(0, 0)}))
            elif pc == "copy-dtype":
                # same values stored with the dtype the minimal on-disk formats use
                b = _make(kind2, d2, dtype=np.int8)
            elif pc == "copy-layout":
                # same values in another memory layout (a transposed (2,n) array, what np.array([rows, cols]).T or argwhere give)
                b = _make_layout(kind2, d2)
            else:
                b = _make(kind2, d2)
        except Exception as e:  # noqa: BLE001
            ctx.violation(f"C09/construct/exception/{type(e).__name__}", repr(e)[:400], case)
            continue
        exp = _ref_eq(kind, d, kind2, d2)
        ctx.tally(f"c09:pair:{pc}")
        if pc != "identical":
            ctx.nontrivial(pc, kind, d["cl"], d["s"], d["e"], d["path"], kind2, d2["cl"], d2["s"], d2["e"], d2["path"])
        _eq_ops(ctx, a, b, exp, case)
        ha, hb = _hash(ctx, a, case), _hash(ctx, b, case)
        if exp and ha is not None and hb is not None:
            ctx.check(ha == hb, "C09/equal-mazes-different-hash", f"{ha} != {hb}", case)
        if i % 601 == 0:
            ctx.sample(dict(pair_class=pc, kind=kind, kind2=kind2, shape=d["cl"].shape[1:], expected_equal=exp))
    _dedup(ctx, 200 if ctx.quick else 4000)
    _datasets(ctx, 60 if ctx.quick else 1000)
    _big(ctx, 48 if ctx.quick else 800)
    _travel(ctx, 24 if ctx.quick else 200)
    _loader_ctors(ctx, 60 if ctx.quick else 600, tag0="before-ctors")   # (refused loads first: the constructors are judged after them)
    _ctors(ctx, 2400 if ctx.quick else 48000)
    _other_routes(ctx, 240 if ctx.quick else 2400)
    _loader_ctors(ctx, 120 if ctx.quick else 1200)


def _other_routes(ctx, n):
    """equal mazes that came into being in different ways (constructor; read back from the colour picture, the black/white mask, the
    mask as 0/1 integers, one grey channel 0/255, the text drawing; serialize -> load; pickle): == both ways, equal hashes, one set entry"""
    import pickle

    from maze_dataset.maze.lattice_maze import LatticeMaze, SolvedMaze, TargetedLatticeMaze

    for i in range(n):
        if not ctx.mine(i):
            continue
        rng = ctx.sub_rng("routes", i)
        d = _data(rng)
        if d["cl"].shape[1] * d["cl"].shape[2] < 2:
            continue
        kind = KINDS[i % 3]
        cls = {"LatticeMaze": LatticeMaze, "TargetedLatticeMaze": TargetedLatticeMaze, "SolvedMaze": SolvedMaze}[kind]
        case = dict(kind=kind, d=d)
        try:
            a = _make(kind, d)
            px = a.as_pixels()
        except Exception as e:  # noqa: BLE001
            ctx.tally(f"c09:route-base-unavailable:{type(e).__name__}(not judged)")
            continue
        routes = {"from_pixels(rgb)": lambda: cls.from_pixels(px), "from_ascii": lambda: cls.from_ascii(a.as_ascii()),
                  "load(serialize())": lambda: cls.load(a.serialize()), "pickle": lambda: pickle.loads(pickle.dumps(a))}
        if kind == "LatticeMaze":
            routes.update({"from_pixels(bool mask)": lambda: cls.from_pixels(px[..., 0] > 0),
                           "from_pixels(0/1 integers)": lambda: cls.from_pixels((px[..., 0] > 0).astype(np.int64)),
                           "from_pixels(0/1 floats)": lambda: cls.from_pixels((px[..., 0] > 0).astype(np.float64)),
                           "from_pixels(grey channel 0/255)": lambda: cls.from_pixels(np.array(px[..., 0]))})
        built = {}
        for rname, mk in routes.items():
            try:
                built[rname] = mk()
            except Exception as e:  # noqa: BLE001
                ctx.tally(f"c09:route-unavailable:{rname}:{type(e).__name__}(not judged)")
        for rname, b in built.items():
            same = (type(b) is type(a) and np.asarray(b.connection_list).shape == d["cl"].shape and np.array_equal(np.asarray(b.connection_list).astype(bool), d["cl"])
                    and (kind == "LatticeMaze" or (tuple(int(x) for x in b.start_pos) == tuple(d["s"]) and tuple(int(x) for x in b.end_pos) == tuple(d["e"])))
                    and (kind != "SolvedMaze" or [tuple(int(x) for x in c) for c in b.solution] == [tuple(c) for c in d["path"]]))
            if not same:
                ctx.tally(f"c09:route-gives-another-maze:{rname}(not judged here)")
                continue
            ctx.ev(); ctx.tally("c09:pair:other-route")
            c2 = dict(case, route=rname)
            _eq_ops(ctx, a, b, True, c2)
            ha, hb = _hash(ctx, a, c2), _hash(ctx, b, c2)
            if ha is not None and hb is not None:
                ctx.check(ha == hb, "C09/equal-mazes-different-hash", f"the same maze built by the constructor and through {rname}: hashes {ha} != {hb}", c2)
            try:
                ctx.check(len({a, b}) == 1 and len(dict.fromkeys([a, b])) == 1, "C09/set-does-not-dedup-equal-mazes", f"constructor + {rname}", c2)
            except Exception as e:  # noqa: BLE001
                ctx.violation(f"C09/set-dedup-raises/{type(e).__name__}", repr(e)[:300], c2)


def _loader_ctors(ctx, n, tag0="after-ctors"):
    """the other way solved mazes come into being - a dataset loaded from its serialized form: a start / end outside the grid in the
    stored arrays must be refused (any exception) or at least never end up inside a maze object"""
    from maze_dataset import MazeDataset, MazeDatasetConfig

    for i in range(n):
        if not ctx.mine(i):
            continue
        rng = ctx.sub_rng("loader-ctor", i)
        g_n = int(rng.integers(2, 7))
        mazes = []
        for t in range(int(rng.integers(1, 4))):
            _, cl = ref.random_structure(g_n, g_n, rng, "tree")
            g = Graph(cl)
            cells = ref.all_cells(g_n, g_n)
            mazes.append(lib.solved(cl, g.shortest_path(cells[int(rng.integers(len(cells)))], cells[int(rng.integers(len(cells)))], rng)))
        fmt = ["_serialize_minimal", "_serialize_minimal_soln_cat"][i % 2]
        with warnings.catch_warnings():
            warnings.simplefilter("ignore")
            ds = MazeDataset(MazeDatasetConfig(name=f"c09l{i}", grid_n=g_n, n_mazes=len(mazes)), mazes)
            data = getattr(ds, fmt)()
            key = "maze_solutions" if fmt == "_serialize_minimal" else "maze_solutions_concat"
            arr = np.array(data[key])
            bad = [-1, -3, g_n, g_n + 2, -128][i % 5]
            tag = "negative" if bad < 0 else "too-large"
            # the first cell of the first stored solution (= its start), or the last cell of the last one (= its end)
            if fmt == "_serialize_minimal":
                pos = (0, 0, int(rng.integers(2))) if i % 4 < 2 else (len(mazes) - 1, len(mazes[-1].solution) - 1, int(rng.integers(2)))
            else:
                pos = (0, int(rng.integers(2))) if i % 4 < 2 else (arr.shape[0] - 1, int(rng.integers(2)))
            arr[pos] = bad
            data[key] = arr
            if i % 6 == 5 and "maze_solution_lengths" in data:
                # another kind of damaged file: a stored solution length of 0 (the load fails while the mazes are being built)
                ln = np.array(data["maze_solution_lengths"]); ln[0] = 0
                data["maze_solution_lengths"] = ln
                ctx.tally("c09:loader-ctor:zero-length-solution")
            if "maze_endpoints" in data:
                ep = np.array(data["maze_endpoints"])
                if i % 4 < 2:
                    ep[0, 0] = arr[0]
                else:
                    ep[-1, 1] = arr[-1]
                data["maze_endpoints"] = ep
            case = dict(format=fmt, grid_n=g_n, stored_value=bad, where=list(pos))
            try:
                back = MazeDataset.load(data)
                raised = None
            except Exception as e:  # noqa: BLE001
                back, raised = None, e
        ctx.ev(); ctx.tally(f"c09:loader-ctor:{tag}")
        if raised is not None:
            ctx.tally("c09:loader-ctor:refused")
            continue
        outside = [(t, tuple(int(x) for x in m.start_pos), tuple(int(x) for x in m.end_pos)) for t, m in enumerate(back.mazes)
                   if not all(0 <= int(v) < g_n for v in (*m.start_pos, *m.end_pos))]
        ctx.check(not outside, f"C09/ctor-accepts-out-of-range/{tag}/loaded-dataset",
                  lambda: f"{fmt}: a stored coordinate {bad} on a {g_n}x{g_n} grid was loaded into maze objects: (index, start, end) {outside[:3]}", case)


def _dedup(ctx, n):
    for i in range(n):
        if not ctx.mine(i):
            continue
        rng = ctx.sub_rng("dedup", i)
        kind = KINDS[i % 3]
        base = [_data(rng, 3, 3) for _ in range(int(rng.integers(1, 5)))]
        items = []
        for _ in range(int(rng.integers(2, 9))):
            items.append(base[int(rng.integers(len(base)))])
        # reference-distinct count
        distinct = []
        for d in items:
            if not any(_ref_eq(kind, d, kind, d0) for d0 in distinct):
                distinct.append(d)
        case = dict(kind=kind, n_items=len(items), n_distinct=len(distinct), items=[dict(cl=d["cl"], path=d["path"]) for d in items])
        try:
            ms = [_make(kind, d) for d in items]
            ns = len(set(ms))
            nd = list(dict.fromkeys(ms))
            ctx.ev(2); ctx.tally("c09:set-dedup")
        except Exception as e:  # noqa: BLE001
            ctx.violation(f"C09/set-dedup-raises/{kind}/{type(e).__name__}", f"{type(e).__name__}: {str(e)[:200]}", case)
            continue
        ctx.check(ns == len(distinct), "C09/set-dedup-wrong-count", f"len(set)={ns} reference-distinct={len(distinct)}", case)
        ctx.check(len(nd) == len(distinct), "C09/dict-dedup-wrong-count", f"len(dict.fromkeys)={len(nd)} reference-distinct={len(distinct)}", case)
        # first occurrences kept, in order
        if len(nd) == len(distinct):
            firsts = []
            for m, d in zip(ms, items):
                if not any(_ref_eq(kind, d, kind, d0) for d0, _m in firsts):
                    firsts.append((d, m))
            ctx.check(all(x is y for x, (_d, y) in zip(nd, firsts)), "C09/dict-dedup-not-first-occurrences", "", case)


def _datasets(ctx, n):
    from maze_dataset import MazeDataset, MazeDatasetConfig

    for i in range(n):
        if not ctx.mine(i):
            continue
        rng = ctx.sub_rng("ds", i)
        ds_data = [_data(rng, 3, 3) for _ in range(int(rng.integers(0, 4)))]
        variant = ["same", "maze-differs", "cfg-differs", "length-differs", "identical-object", "boundary-shift"][i % 6]
        d2 = [dict(cl=d["cl"].copy(), s=d["s"], e=d["e"], path=list(d["path"])) for d in ds_data]
        name2 = "a"
        if variant == "maze-differs":
            if not d2:
                continue
            k = int(rng.integers(len(d2)))
            mut = _mutate("bitflip", "SolvedMaze", d2[k], rng)
            if mut is None:
                continue
            d2[k] = mut[1]
        elif variant == "boundary-shift":
            # two mazes on one connection structure; the same cells overall, but the cut between the two solutions sits one cell
            # later ([a b c][d e] vs [a b][c d e]): the maze lists differ although everything concatenated is equal
            base = _data(rng, 3, 3)
            walk = [(0, 0), (0, 1), (0, 2), (1, 2), (1, 1), (1, 0), (2, 0)]
            k = int(rng.integers(2, len(walk) - 2))
            ds_data = [dict(cl=base["cl"], s=walk[0], e=walk[k], path=walk[:k + 1]), dict(cl=base["cl"], s=walk[k + 1], e=walk[-1], path=walk[k + 1:])]
            d2 = [dict(cl=base["cl"].copy(), s=walk[0], e=walk[k - 1], path=walk[:k]), dict(cl=base["cl"].copy(), s=walk[k], e=walk[-1], path=walk[k:])]
            ctx.tally("c09:dataset-boundary-shift")
        elif variant == "cfg-differs":
            name2 = "b"
        elif variant == "length-differs":
            d2 = d2 + [_data(rng, 3, 3)]
        exp = variant in ("same", "identical-object")
        case = dict(variant=variant, n=len(ds_data))
        try:
            import warnings
            with warnings.catch_warnings():
                warnings.simplefilter("ignore")
                A = MazeDataset(MazeDatasetConfig(name="a", grid_n=3, n_mazes=len(ds_data)), [_make("SolvedMaze", d) for d in ds_data])
                B = A if variant == "identical-object" else MazeDataset(MazeDatasetConfig(name=name2, grid_n=3, n_mazes=len(d2)), [_make("SolvedMaze", d) for d in d2])
        except Exception as e:  # noqa: BLE001
            ctx.violation(f"C09/dataset-construct/exception/{type(e).__name__}", repr(e)[:300], case)
            continue
        try:
            r = (A == B)
            ctx.ev(); ctx.tally("c09:dataset-eq")
        except Exception as e:  # noqa: BLE001
            ctx.violation(f"C09/dataset-eq-raises/{type(e).__name__}", f"{variant}: {type(e).__name__}: {str(e)[:200]}", case)
            continue
        ctx.check(bool(r) == exp, "C09/dataset-eq-wrong", f"{variant}: got {r} expected {exp}", case)


def _big_data(rng, n):
    fam = ["tree", "cyc3", "perc8", "serpentine", "full"][int(rng.integers(5))]
    _, cl = ref.random_structure(n, n, rng, fam)
    g = Graph(cl)
    if fam == "serpentine":
        s, e = (0, 0), (n - 1, (n - 1) if n % 2 else 0)
    else:
        cells = ref.all_cells(n, n)
        s = cells[int(rng.integers(len(cells)))]
        comp = sorted(g.component_of(s))
        e = comp[int(rng.integers(len(comp)))]
    return dict(cl=cl, s=s, e=e, path=g.shortest_path(s, e, rng))


def _big(ctx, n):
    """mazes and datasets on large grids (24..40 a side): differences far from the array corners / solution ends"""
    from maze_dataset import MazeDataset, MazeDatasetConfig
    import warnings

    for i in range(n):
        if not ctx.mine(i):
            continue
        rng = ctx.sub_rng("big", i)
        g_n = [24, 30, 40, 23][i % 4]
        d = _big_data(rng, g_n)
        variant = ["interior-bit", "interior-solution-cell", "same", "corner-bit", "meta-only", "dtype-only"][i % 6]
        d2 = dict(cl=d["cl"].copy(), s=d["s"], e=d["e"], path=list(d["path"]))
        if variant == "interior-bit":
            r, c = int(rng.integers(5, g_n - 6)), int(rng.integers(5, g_n - 6))
            dd = int(rng.integers(2))
            d2["cl"][dd, r, c] = not d2["cl"][dd, r, c]
        elif variant == "corner-bit":
            d2["cl"][0, 0, 0] = not d2["cl"][0, 0, 0]
        elif variant == "interior-solution-cell":
            if len(d["path"]) < 9:
                continue
            k = len(d["path"]) // 2
            cells = [c for c in ref.all_cells(g_n, g_n) if c != d["path"][k]]
            d2["path"][k] = cells[int(rng.integers(len(cells)))]
        exp = variant in ("same", "meta-only", "dtype-only")
        case = dict(kind="big", variant=variant, grid_n=g_n, solution_len=len(d["path"]))
        try:
            a = _make("SolvedMaze", d, meta=dict(func_name="x") if variant == "meta-only" else None)
            b = _make("SolvedMaze", d2, meta=dict(func_name="y", extra=1) if variant == "meta-only" else None, dtype=np.int8 if variant == "dtype-only" else None)
        except Exception as e:  # noqa: BLE001
            ctx.violation(f"C09/construct/exception/{type(e).__name__}", repr(e)[:400], case)
            continue
        ctx.tally("c09:big-pairs"); ctx.tally(f"c09:big:{variant}")
        ctx.nontrivial("big", variant, d["cl"], d2["cl"], d["path"], d2["path"])
        _eq_ops(ctx, a, b, exp, case)
        ha, hb = _hash(ctx, a, case), _hash(ctx, b, case)
        if exp and ha is not None and hb is not None:
            ctx.check(ha == hb, "C09/equal-mazes-different-hash", f"{ha} != {hb}", case)
        try:
            ns = len({a, b})
            ctx.check(ns == (1 if exp else 2), "C09/set-dedup-wrong-count", f"len(set)={ns}, mazes are {'equal' if exp else 'different'} ({variant})", case)
        except Exception as e:  # noqa: BLE001
            ctx.violation(f"C09/set-dedup-raises/SolvedMaze/{type(e).__name__}", str(e)[:200], case)
        # datasets holding these mazes (plus a common second maze)
        try:
            with warnings.catch_warnings():
                warnings.simplefilter("ignore")
                common = _big_data(rng, g_n)
                A = MazeDataset(MazeDatasetConfig(name="big", grid_n=g_n, n_mazes=2), [_make("SolvedMaze", common), a])
                B = MazeDataset(MazeDatasetConfig(name="big", grid_n=g_n, n_mazes=2), [_make("SolvedMaze", common), b])
                r = (A == B)
                ctx.ev(); ctx.tally("c09:dataset-eq"); ctx.tally("c09:dataset-eq-big")
                ctx.check(bool(r) == exp, "C09/dataset-eq-wrong", f"large grid {g_n}, {variant}: got {r} expected {exp}", case)
                if i % 2 == 0:
                    Cc = MazeDataset(MazeDatasetConfig(name="big", grid_n=g_n, n_mazes=2), [a, _make("SolvedMaze", common)])
                    same_order = _ref_eq("SolvedMaze", d, "SolvedMaze", common)
                    ctx.check(bool(A == Cc) == same_order, "C09/dataset-eq-wrong", f"large grid {g_n}: same mazes in another order compare {A == Cc}", case)
        except Exception as e:  # noqa: BLE001
            ctx.violation(f"C09/dataset-eq-raises/{type(e).__name__}", f"{variant}: {str(e)[:200]}", case)


def _travel(ctx, n):
    """mazes built (and possibly already hashed) in another interpreter process with another string-hash seed, pickled, and
    loaded here: they must equal, hash like and de-duplicate with the same mazes built here"""
    import json
    import os
    import pickle
    import subprocess

    from ..core import VERIF_ROOT
    from ..runner import PY, shard_env

    mine = [i for i in range(n) if ctx.mine(i)]
    if not mine:
        return
    specs, datas = [], []
    for i in mine:
        rng = ctx.sub_rng("travel", i)
        d = _data(rng) if i % 3 else _big_data(rng, 12)
        kind = KINDS[i % 3]
        datas.append((kind, d))
        specs.append(dict(kind=kind, cl=np.asarray(d["cl"]).astype(int).tolist(), s=list(d["s"]), e=list(d["e"]), path=[list(p) for p in d["path"]],
                          hash_first=bool(i % 2 == 0)))
    for hs in (101, 202):
        out = os.path.join(ctx.work, f"c09-travel-{hs}.pkl")
        p = subprocess.run([PY, "-m", "vmon.c09_child", out], input=json.dumps(specs), capture_output=True, text=True,
                           env=shard_env(dict(PYTHONHASHSEED=str(hs))), cwd=VERIF_ROOT, timeout=900)
        if p.returncode != 0 or "PICKLED" not in p.stdout:
            ctx.tally("c09:travel-child-failed(not judged)")
            ctx.note(f"c09 child failed (pickling a maze is not part of the statement): {p.stderr[-300:]}")
            continue
        try:
            with open(out, "rb") as f:
                loaded = pickle.load(f)
        except Exception as e:  # noqa: BLE001
            ctx.tally("c09:travel-unpickle-failed(not judged)")
            ctx.note(f"unpickle failed: {e!r}"[:200])
            continue
        finally:
            if os.path.exists(out):
                os.unlink(out)
        for (kind, d), sp, m in zip(datas, specs, loaded):
            case = dict(kind=kind, hashed_before_pickling=sp["hash_first"], child_hashseed=hs, shape=list(np.asarray(d["cl"]).shape[1:]))
            fresh = _make(kind, d)
            ctx.tally("c09:travelled"); ctx.tally("c09:travelled:hashed-first" if sp["hash_first"] else "c09:travelled:never-hashed")
            _eq_ops(ctx, m, fresh, True, case)
            hm, hf = _hash(ctx, m, case), _hash(ctx, fresh, case)
            if hm is not None and hf is not None:
                ctx.check(hm == hf, "C09/equal-mazes-different-hash", f"a maze unpickled from another process hashes {hm}, the equal maze built here {hf}", case)
            try:
                ctx.check(len({m, fresh}) == 1 and len(dict.fromkeys([fresh, m])) == 1, "C09/set-dedup-wrong-count",
                          "an unpickled maze and the equal maze built here do not de-duplicate", case)
            except Exception as e:  # noqa: BLE001
                ctx.violation(f"C09/set-dedup-raises/{kind}/{type(e).__name__}", str(e)[:200], case)


def _caller_arrays(ctx, cl, s, e, cells, rng, case):
    """a maze is a value: what the caller later does to the arrays it passed in must not move the maze's start / end / solution
    (the constructors copy them), so the maze keeps valid ends, stays equal to its equal copy and keeps its hash"""
    from maze_dataset.maze.lattice_maze import SolvedMaze, TargetedLatticeMaze

    R, C = cl.shape[1:]
    sp, ep = np.array(s), np.array(e)
    sol = np.array([s, *[cells[int(rng.integers(len(cells)))] for _ in range(int(rng.integers(0, 3)))], e])
    try:
        t = TargetedLatticeMaze(connection_list=cl.copy(), start_pos=sp, end_pos=ep)
        t2 = TargetedLatticeMaze(connection_list=cl.copy(), start_pos=np.array(s), end_pos=np.array(e))
        sm = SolvedMaze(connection_list=cl.copy(), solution=sol)
        sm2 = SolvedMaze(connection_list=cl.copy(), solution=sol.copy())
        ht, hs = hash(t), hash(sm)
    except Exception as ex:  # noqa: BLE001
        ctx.violation(f"C09/construct/exception/{type(ex).__name__}", repr(ex)[:300], case)
        return
    sol_before = sol.copy()
    # the caller re-uses its buffers (a moving cursor, an out-of-range scratch value)
    sp[:] = (-1, R + 5); ep[:] = (R + 7, -3); sol[:] = -9
    ctx.ev(); ctx.tally("c09:caller-arrays")
    ok_t = tuple(int(x) for x in t.start_pos) == tuple(s) and tuple(int(x) for x in t.end_pos) == tuple(e)
    ctx.check(ok_t, "C09/maze-changes-when-caller-mutates-its-arrays/TargetedLatticeMaze",
              lambda: f"start/end were {s}/{e}, now {np.asarray(t.start_pos).tolist()}/{np.asarray(t.end_pos).tolist()} (grid {R}x{C})", case)
    ok_s = np.array_equal(np.asarray(sm.solution), sol_before) and tuple(int(x) for x in sm.start_pos) == tuple(s) and tuple(int(x) for x in sm.end_pos) == tuple(e)
    ctx.check(ok_s, "C09/maze-changes-when-caller-mutates-its-arrays/SolvedMaze",
              lambda: f"solution was {sol_before.tolist()}, now {np.asarray(sm.solution).tolist()}; ends {np.asarray(sm.start_pos).tolist()}/{np.asarray(sm.end_pos).tolist()}", case)
    try:
        ctx.check((t == t2) is True and hash(t) == ht == hash(t2) and (sm == sm2) is True and hash(sm) == hs == hash(sm2),
                  "C09/maze-changes-when-caller-mutates-its-arrays/equality-or-hash", "a maze stopped being equal to its equal copy / changed its hash", case)
    except Exception as ex:  # noqa: BLE001
        ctx.violation(f"C09/eq-raises/{type(ex).__name__}", repr(ex)[:200], case)


def _ctors(ctx, n):
    from maze_dataset.maze.lattice_maze import SolvedMaze, TargetedLatticeMaze

    for i in range(n):
        if not ctx.mine(i):
            continue
        rng = ctx.sub_rng("ctor", i)
        R = int(rng.integers(1, 7)); C = R if rng.random() < 0.5 else int(rng.integers(1, 7))
        _, cl = ref.random_structure(R, C, rng, "tree")
        cells = ref.all_cells(R, C)
        vals_r = list(range(-3, R + 3)); vals_c = list(range(-3, C + 3))
        mode = i % 3  # 0: in range, 1: negative somewhere, 2: too large somewhere
        good = cells[int(rng.integers(len(cells)))]
        other = cells[int(rng.integers(len(cells)))]
        if mode == 0:
            s, e = good, other
        else:
            if mode == 1:
                bad = (int(rng.integers(-3, 0)), int(rng.integers(0, C))) if rng.random() < 0.5 else (int(rng.integers(0, R)), int(rng.integers(-3, 0)))
            else:
                bad = (int(rng.integers(R, R + 3)), int(rng.integers(0, C))) if rng.random() < 0.5 else (int(rng.integers(0, R)), int(rng.integers(C, C + 3)))
            s, e = (bad, other) if rng.random() < 0.5 else (other, bad)
        in_range = all(0 <= p[0] < R and 0 <= p[1] < C for p in (s, e))
        which = "solved" if i % 4 == 3 else "targeted"
        case = dict(which=which, shape=(R, C), s=s, e=e)
        cls_tag = {0: "in-range", 1: "negative", 2: "too-large"}[mode]
        try:
            if which == "targeted":
                form = i % 5
                sp = np.array(s) if form < 3 else (tuple(s) if form == 3 else list(s))
                ep = np.array(e) if form < 3 else (tuple(e) if form == 3 else list(e))
                TargetedLatticeMaze(connection_list=cl, start_pos=sp, end_pos=ep)
            else:
                mid = [cells[int(rng.integers(len(cells)))] for _ in range(int(rng.integers(0, 3)))]
                SolvedMaze(connection_list=cl, solution=np.array([s, *mid, e]))
                ctx.tally("c09:ctor:solved")
            raised = None
        except Exception as ex:  # noqa: BLE001
            raised = ex
        ctx.ev(); ctx.tally(f"c09:ctor:{cls_tag}")
        if not in_range and i % 4 == 1:
            # every other way the constructor can be given its ends: explicit start_pos / end_pos next to an unusable solution, with the
            # validity check of the solution switched off - the result may raise (anything) but never hold an end outside the grid
            for sol_form in ([], None, np.zeros((0, 2), dtype=int), np.array([s, e])):
                for ai in (True, False):
                    try:
                        mz = SolvedMaze(connection_list=cl, solution=sol_form, start_pos=np.array(s) if i % 2 else tuple(s), end_pos=np.array(e) if i % 2 else list(e), allow_invalid=ai)
                    except Exception:  # noqa: BLE001
                        ctx.tally("c09:ctor:other-paths-refused")
                        continue
                    ctx.tally("c09:ctor:other-paths-accepted")
                    try:
                        ends = [tuple(int(v) for v in p_) for p_ in (mz.start_pos, mz.end_pos) if p_ is not None]
                    except Exception:  # noqa: BLE001
                        ends = []
                    out_ = [p_ for p_ in ends if not (0 <= p_[0] < R and 0 <= p_[1] < C)]
                    ctx.check(not out_, f"C09/ctor-accepts-out-of-range/{cls_tag}/solved-with-explicit-ends",
                              f"SolvedMaze(solution={'array' if isinstance(sol_form, np.ndarray) else sol_form!r}, start_pos={s}, end_pos={e}, allow_invalid={ai}) on {R}x{C} holds ends {ends}", case)
        if in_range and raised is None and i % 2 == 0:
            _caller_arrays(ctx, cl, s, e, cells, rng, case)
        if in_range:
            ctx.check(raised is None, f"C09/ctor-rejects-in-range/{which}", f"{type(raised).__name__}: {raised}"[:300], case)
        else:
            if raised is None:
                ctx.violation(f"C09/ctor-accepts-out-of-range/{cls_tag}/{which}", f"s={s} e={e} grid {R}x{C} accepted", case)
            else:
                ctx.check(isinstance(raised, ValueError), f"C09/ctor-wrong-exception/{type(raised).__name__}",
                          f"{type(raised).__name__}: {str(raised)[:200]}", case)
