"""C13 — all graph queries agree with the connection structure."""

from __future__ import annotations

import warnings

import numpy as np

from .. import lib, ref
from ..ref import Graph

OPTIMISED_LAST_SHARD = True  # the last shard runs under python -O (no assert statements)
LEVEL = "exploration"
TECHNIQUE = 'runtime monitoring: every public graph query compared with an adjacency-set reference model; exhaustive over all structures with <=12 lattice edges x all cells x all ordered pairs, random structures to 15x15 incl. oblong, valid/broken/out-of-bounds/empty candidate paths'
RULE = ("nodes_connected, get_coord_neighbors, coord_degrees, gen_connected_component_from, is_valid_path, get_nodes, as_adj_list / "
        "connection_list_to_adj_list (all shuffle flags), is_connection, from_adj_list(as_adj_list), lattice_connection_array, "
        "lattice_max_degrees, manhattan_distance, solution forking / path-following points compared with an adjacency-set model: "
        "exhaustively on every structure of every grid with <= 12 lattice edges x all cells x all ordered pairs, and on random "
        "structures up to 15x15 incl. oblong. non-trivial & distinct = distinct connection structures with >= 1 edge")
ASSUMPTIONS = ["from_adj_list only on square mazes whose highest row and column index occur in a connection (documented precondition)"]
NSHARDS = {"quick": 16, "thorough": 16}
THRESHOLDS = {"quick": {"c13:generator-made-mazes": 300, "c13:answers-overwritten-by-caller": 3000, "c13:objects-built-another-way": 400, "c13:reloaded-mazes": 40, "c13:same-object-after-edit:in-place": 100, "c13:same-object-after-edit:re-bound": 100, 
    "c13:nodes_connected": 1000, "c13:neighbors": 1000, "c13:degrees": 1000, "c13:component": 1000, "c13:valid-path": 1000,
    "c13:invalid-path:broken": 300, "c13:invalid-path:oob-neg": 300, "c13:invalid-path:oob-big": 300, "c13:empty-path": 1000, "c13:one-cell-path": 3000, "c13:forks-on-walks": 300, "c13:is_connection-large-grid": 12,
    "c13:adj-list": 1000, "c13:is_connection": 1000, "c13:from_adj_list": 300, "c13:oblong": 100, "c13:forks": 500,
    "c13:lattice_connection_array": 10, "c13:lattice_max_degrees": 10, "c13:manhattan": 100, "c13:get_nodes": 1000,
    "c13:exh-structures": 6541,
}}
THRESHOLDS["thorough"] = dict(THRESHOLDS["quick"])
ANCHORS = [
    "maze_dataset.maze.lattice_maze:LatticeMaze.nodes_connected",
    "maze_dataset.maze.lattice_maze:LatticeMaze.is_valid_path",
    "maze_dataset.maze.lattice_maze:LatticeMaze.coord_degrees",
    "maze_dataset.maze.lattice_maze:LatticeMaze.get_coord_neighbors",
    "maze_dataset.maze.lattice_maze:LatticeMaze.gen_connected_component_from",
    "maze_dataset.maze.lattice_maze:LatticeMaze.get_nodes",
    "maze_dataset.maze.lattice_maze:LatticeMaze.from_adj_list",
    "maze_dataset.maze.lattice_maze:SolvedMaze.get_solution_forking_points",
    "maze_dataset.maze.lattice_maze:SolvedMaze.get_solution_path_following_points",
    "maze_dataset.token_utils:connection_list_to_adj_list",
    "maze_dataset.token_utils:is_connection",
    "maze_dataset.utils:lattice_connection_array",
    "maze_dataset.utils:lattice_max_degrees",
    "maze_dataset.utils:manhattan_distance",
]
AMBIENT = dict(generators=False, solver=False, solved=False)


def _tl(a):
    return [tuple(int(x) for x in c) for c in a]


_CNT = [0]


def _arr(c):
    """a coordinate as an array - int64 / int8 (the library's own coordinate dtype) / int32 in rotation"""
    _CNT[0] += 1
    return np.array(c, dtype=(np.int64, np.int8, np.int32)[_CNT[0] % 3])


def _any(c):
    """a coordinate in one of the forms the loosely typed queries accept: arrays, tuple, list, tuple of numpy scalars"""
    _CNT[0] += 1
    k = _CNT[0] % 5
    return (np.array(c), tuple(c), list(c), np.array(c, dtype=np.int8), tuple(np.int64(x) for x in c))[k]


def _scribble(x):
    """what a query handed back belongs to the caller: overwrite it in place (scaled to pixel centres, blanked)"""
    try:
        if isinstance(x, np.ndarray) and x.flags.writeable and x.size:
            if x.dtype.kind in "iu":
                x *= 2
                x += 1
            elif x.dtype.kind == "b":
                x[...] = ~x
            return True
    except Exception:  # noqa: BLE001
        pass
    return False


def check_structure(ctx, cl, case, full: bool, rng, maze=None):
    from maze_dataset.token_utils import connection_list_to_adj_list, is_connection

    g = Graph(cl)
    R, C = g.R, g.C
    if maze is None:
        maze = lib.lattice(cl)
    cells = ref.all_cells(R, C)
    if R != C:
        ctx.tally("c13:oblong")
    # get_nodes
    with ctx.guard("C13/get_nodes", case):
        nodes = _tl(maze.get_nodes())
        ctx.ev(); ctx.tally("c13:get_nodes")
        ctx.check(sorted(nodes) == sorted(cells) and len(nodes) == len(cells), "C13/get_nodes-wrong", f"{nodes}", case)
        if _scribble(maze.get_nodes()):
            ctx.tally("c13:answers-overwritten-by-caller")
            again = _tl(maze.get_nodes())
            ctx.check(sorted(again) == sorted(cells), "C13/get_nodes-wrong", f"asked again after the caller overwrote the first answer in place: {again[:6]}", case)
    # degrees
    with ctx.guard("C13/coord_degrees", case):
        deg = maze.coord_degrees()
        ctx.ev(); ctx.tally("c13:degrees")
        exp = np.array([[g.degree((r, c)) for c in range(C)] for r in range(R)])
        ctx.check(deg.shape == exp.shape and np.array_equal(deg, exp), "C13/coord_degrees-wrong",
                  lambda: f"got {np.asarray(deg).tolist()} expected {exp.tolist()}", case)
        _scribble(deg)
    # neighbours + component per cell
    cell_iter = cells if full else [cells[int(i)] for i in rng.choice(len(cells), size=min(len(cells), 12), replace=False)]
    for c in cell_iter:
        with ctx.guard("C13/get_coord_neighbors", case):
            nb = maze.get_coord_neighbors(_any(c))
            ctx.ev(); ctx.tally("c13:neighbors")
            got = _tl(nb)
            ctx.check(sorted(got) == sorted(g.adj[c]) and len(got) == len(set(got)), "C13/neighbors-wrong",
                      lambda: f"cell {c}: got {got} expected {sorted(g.adj[c])}", dict(case, cell=c))
            _scribble(nb)
    comp_cells = cell_iter if full else cell_iter[:3]
    for c in comp_cells:
        with ctx.guard("C13/gen_connected_component_from", case):
            cc = maze.gen_connected_component_from(_any(c))
            ctx.ev(); ctx.tally("c13:component")
            got = _tl(cc)
            ctx.check(set(got) == g.component_of(c) and len(got) == len(set(got)), "C13/component-wrong",
                      lambda: f"from {c}: got {sorted(got)} expected {sorted(g.component_of(c))}", dict(case, cell=c))
            _scribble(cc)
    # nodes_connected on ordered pairs
    if full:
        pairs = [(a, b) for a in cells for b in cells]
    else:
        pairs = []
        for a in cell_iter:
            for d in ((0, 1), (1, 0), (0, -1), (-1, 0)):
                b = (a[0] + d[0], a[1] + d[1])
                if g.in_grid(b):
                    pairs.append((a, b))
            pairs.append((a, a))
            pairs.append((a, cells[int(rng.integers(len(cells)))]))
    for a, b in pairs:
        with ctx.guard("C13/nodes_connected", case):
            r = maze.nodes_connected(_arr(a), _arr(b))
            ctx.ev(); ctx.tally("c13:nodes_connected")
            ctx.check(bool(r) == g.has_edge(a, b), "C13/nodes_connected-wrong", f"{a},{b}: got {r}", dict(case, a=a, b=b))
    # adjacency list views
    E = g.edges()
    for sd0 in (False, True):
        for sd1 in (False, True):
            with ctx.guard("C13/as_adj_list", case):
                al = maze.as_adj_list(shuffle_d0=sd0, shuffle_d1=sd1) if (sd0 or not sd1) else connection_list_to_adj_list(cl, sd0, sd1)
                ctx.ev(); ctx.tally("c13:adj-list")
                al = np.asarray(al)
                got = [frozenset((tuple(int(x) for x in e[0]), tuple(int(x) for x in e[1]))) for e in al]
                ok = len(got) == len(E) and set(got) == E and all(len(e) == 2 for e in got)
                ctx.check(ok, "C13/adj-list-wrong", lambda: f"shuffle=({sd0},{sd1}) got {len(got)} entries, {len(set(got))} distinct; expected {len(E)}", case)
                if not sd1 and ok and all(tuple(e[0]) <= tuple(e[1]) for e in al.tolist()):
                    ctx.tally("c13:adj-list-unshuffled-smaller-first(observed, not judged: the statement allows either orientation)")
    # is_connection on all lattice edges, both orientations, plus as batch
    slots = ref.lattice_edge_slots(R, C)
    if slots:
        edges = []
        for (d, r, c) in slots:
            a = (r, c); b = (r + 1, c) if d == 0 else (r, c + 1)
            edges.append((a, b) if rng.random() < 0.5 else (b, a))
        with ctx.guard("C13/is_connection", case):
            # int8 is the dtype the library itself passes (lattice_connection_array, connection_list_to_adj_list)
            res = is_connection(np.array(edges, dtype=(np.int8 if rng.random() < 0.6 else np.int64)), cl)
            ctx.ev(); ctx.tally("c13:is_connection")
            exp = [g.has_edge(a, b) for a, b in edges]
            ctx.check(list(map(bool, res)) == exp, "C13/is_connection-wrong", lambda: f"edges={edges} got={list(map(bool, res))} exp={exp}", case)
    # from_adj_list(as_adj_list)
    if R == C and E and cl[:, R - 1, :].any() | cl[:, :, C - 1].any():
        # highest row index and highest col index must each occur in some connection
        top_r = any(max(a[0], b[0]) == R - 1 for a, b in map(tuple, E))
        top_c = any(max(a[1], b[1]) == C - 1 for a, b in map(tuple, E))
        if top_r and top_c:
            from maze_dataset.maze.lattice_maze import LatticeMaze

            with ctx.guard("C13/from_adj_list", case):
                m2 = LatticeMaze.from_adj_list(maze.as_adj_list())
                ctx.ev(); ctx.tally("c13:from_adj_list")
                ctx.check(m2.connection_list.shape == cl.shape and np.array_equal(m2.connection_list, cl), "C13/from_adj_list-roundtrip-wrong",
                          lambda: f"got {m2.connection_list.astype(int).tolist()}", case)
    # candidate paths
    _paths(ctx, maze, g, cells, case, rng, 6 if full else 4)
    return g, maze


def _paths(ctx, maze, g, cells, case, rng, n):
    R, C = g.R, g.C
    for e_valid in (False, True):
        with ctx.guard("C13/is_valid_path-empty", case):
            r = maze.is_valid_path(np.zeros((0, 2), dtype=int), empty_is_valid=e_valid)
            ctx.ev(); ctx.tally("c13:empty-path")
            ctx.check(bool(r) == e_valid, "C13/empty-path-wrong", f"empty_is_valid={e_valid} got {r}", case)
    for _ in range(n):
        # random walk along edges (valid; may repeat cells -> still a valid walk along connections)
        cur = cells[int(rng.integers(len(cells)))]
        walk = [cur]
        for _s in range(int(rng.integers(0, 8))):
            nb = g.adj[cur]
            if not nb:
                break
            cur = nb[int(rng.integers(len(nb)))]
            walk.append(cur)
        with ctx.guard("C13/is_valid_path", case):
            r = maze.is_valid_path(np.array(walk, dtype=(np.int64, np.int32)[len(walk) % 2]))
            ctx.ev(); ctx.tally("c13:valid-path")
            ctx.check(bool(r) is True, "C13/valid-walk-rejected", f"walk={walk}", dict(case, walk=walk))
        # break one step
        if len(walk) >= 1:
            k = int(rng.integers(len(walk)))
            non = [c for c in cells if c != walk[k] and (k == 0 or c not in g.adj[walk[k - 1]] or (k + 1 < len(walk) and c not in g.adj[walk[k + 1]]))]
            if non:
                bad = list(walk)
                bad[k] = non[int(rng.integers(len(non)))]
                exp = g.path_problems(bad) is None
                with ctx.guard("C13/is_valid_path", case):
                    r = maze.is_valid_path(np.array(bad))
                    ctx.ev()
                    if not exp:
                        ctx.tally("c13:invalid-path:broken")
                    ctx.check(bool(r) == exp, "C13/is_valid_path-wrong", f"path={bad} expected {exp} got {r}", dict(case, path=bad))
        # one-cell paths: a cell of the grid is a (trivially) valid path, a cell outside it is not
        for cell, exp1 in ((walk[0], True), ((-1, int(rng.integers(C))), False), ((int(rng.integers(R)), -1), False), ((R, int(rng.integers(C))), False),
                           ((int(rng.integers(R)), C), False), ((R + 3, C + 3), False)):
            with ctx.guard("C13/is_valid_path", case):
                r = maze.is_valid_path(np.array([cell]))
                ctx.ev(); ctx.tally("c13:one-cell-path")
                ctx.check(bool(r) is exp1, "C13/is_valid_path-wrong-on-one-cell-path", f"path=[{cell}] grid {R}x{C}: expected {exp1} got {r}", dict(case, path=[cell]))
        # out of bounds
        for kind, cell in (("oob-neg", (-1, 0) if rng.random() < 0.5 else (0, -1)),
                           ("oob-big", (R, 0) if rng.random() < 0.5 else (0, C))):
            bad = list(walk)
            bad.insert(int(rng.integers(len(bad) + 1)), cell)
            with ctx.guard("C13/is_valid_path", case):
                r = maze.is_valid_path(np.array(bad))
                ctx.ev(); ctx.tally(f"c13:invalid-path:{kind}")
                ctx.check(bool(r) is False, f"C13/is_valid_path-accepts-{kind}", f"path={bad}", dict(case, path=bad))


def _forks(ctx, cl, g, case, rng):
    cells = ref.all_cells(g.R, g.C)
    s = cells[int(rng.integers(len(cells)))]
    comp = sorted(g.component_of(s))
    e = comp[int(rng.integers(len(comp)))]
    path = g.shortest_path(s, e, rng)
    if rng.random() < 0.3 and g.adj[s]:
        # any walk along connections is a solution the class accepts - also one that steps back or laps a cycle and so visits its
        # own first / last cell again; the rule applies per step
        walk = [s]
        for _ in range(int(rng.integers(2, 12))):
            nb = g.adj[walk[-1]]
            walk.append(nb[int(rng.integers(len(nb)))])
        path = walk
        e = walk[-1]
        ctx.tally("c13:forks-on-walks")
    sm = lib.solved(cl, path)
    n = len(path)
    exp_forks = []
    for i, c in enumerate(path):
        thr = 1 if (i == 0 or i == n - 1) else 2
        if g.degree(c) > thr:
            exp_forks.append(i)
    exp_follow = [i for i in range(n) if i not in exp_forks]
    with ctx.guard("C13/forking-points", case):
        idx, coords = sm.get_solution_forking_points()
        fidx, fcoords = sm.get_solution_path_following_points()
        ctx.ev(); ctx.tally("c13:forks")
        c2 = dict(case, s=s, e=e, path=path)
        ctx.check(list(map(int, idx)) == exp_forks, "C13/forking-points-wrong", f"got {list(idx)} expected {exp_forks} path={path}", c2)
        ctx.check(_tl(coords) == [path[i] for i in exp_forks], "C13/forking-coords-wrong", f"{_tl(coords)}", c2)
        ctx.check(list(map(int, fidx)) == exp_follow, "C13/following-points-wrong", f"got {list(fidx)} expected {exp_follow}", c2)
        ctx.check(_tl(fcoords) == [path[i] for i in exp_follow], "C13/following-coords-wrong", f"{_tl(fcoords)}", c2)
        # always_include_endpoints variant
        idx2, _ = sm.get_solution_forking_points(always_include_endpoints=True)
        exp2 = sorted(set(exp_forks) | {0, n - 1})
        ctx.check(list(map(int, idx2)) == exp2, "C13/forking-points-endpoints-wrong", f"got {list(idx2)} expected {exp2}", c2)


def _generator_made(ctx, n):
    """mazes as the generators hand them out (sparse percolation with the start in a corner / on the last row or column, constrained
    DFS, 1 x n grids): the same agreement of all views, judged on the generator's own object"""
    from maze_dataset.generation.generators import GENERATORS_MAP

    for j in range(n):
        if not ctx.mine(j):
            continue
        rng = ctx.sub_rng("genmade", j)
        R, C = (int(rng.integers(1, 9)), int(rng.integers(1, 9))) if j % 3 else (int(rng.integers(2, 8)),) * 2
        starts = [(R - 1, C - 1), (R - 1, 0), (0, C - 1), (R - 1, int(rng.integers(C))), (int(rng.integers(R)), C - 1), (0, 0), None]
        sc = starts[j % len(starts)]
        gen, kw = [("gen_percolation", dict(p=[0.0, 0.05, 0.15, 0.3, 0.6][j % 5])), ("gen_dfs_percolation", dict(p=[0.0, 0.1, 0.4][j % 3])),
                   ("gen_dfs", dict(accessible_cells=int(rng.integers(0, R * C + 1)))), ("gen_percolation", dict(p=0.1)), ("gen_prim", dict(max_tree_depth=2))][(j // 7) % 5]
        kw = dict(kw)
        if sc is not None:
            kw["start_coord"] = sc if j % 2 else np.array(sc)
        case = dict(kind="generator-made", gen=gen, kwargs={k: (tuple(int(x) for x in v) if k == "start_coord" else v) for k, v in kw.items()}, shape=(R, C))
        try:
            with warnings.catch_warnings():
                warnings.simplefilter("ignore")
                np.random.seed(int(rng.integers(1 << 31)))
                mz = GENERATORS_MAP[gen](np.array([R, C]), **kw)
        except Exception as e:  # noqa: BLE001
            ctx.tally(f"c13:generator-refused:{type(e).__name__}(not judged)")
            continue
        cl = np.asarray(mz.connection_list)
        if cl.shape != (2, R, C):
            ctx.tally("c13:generator-made-other-shape(not judged here)")
            continue
        ctx.tally("c13:generator-made-mazes")
        check_structure(ctx, cl.astype(bool), dict(case, cl=cl.astype(bool)), False, rng, maze=mz)


def _reloaded(ctx, n):
    """solved mazes as they come back from a dataset round trip (full and both compact formats): the object's own solution, fed back
    into the object's own queries, must be judged like any other path"""
    from maze_dataset import MazeDataset, MazeDatasetConfig

    for j in range(n):
        if not ctx.mine(j):
            continue
        rng = ctx.sub_rng("reloaded", j)
        g_n = int(rng.integers(3, 9))
        mazes, truth = [], []
        for t in range(int(rng.integers(2, 6))):
            fam, cl = ref.random_structure(g_n, g_n, rng)
            g = Graph(cl)
            cells = ref.all_cells(g_n, g_n)
            s_ = cells[int(rng.integers(len(cells)))]
            comp = sorted(g.component_of(s_))
            e_ = comp[int(rng.integers(len(comp)))]
            path = g.shortest_path(s_, e_, rng)
            mazes.append(lib.solved(cl, path)); truth.append((cl, g, path))
        with warnings.catch_warnings():
            warnings.simplefilter("ignore")
            ds = MazeDataset(MazeDatasetConfig(name=f"c13r{j}", grid_n=g_n, n_mazes=len(mazes)), mazes)
            fmt = ["_serialize_minimal", "_serialize_minimal_soln_cat", "_serialize_full"][j % 3]
            case0 = dict(kind="reloaded", format=fmt, grid_n=g_n)
            try:
                back = MazeDataset.load(getattr(ds, fmt)())
            except Exception as e:  # noqa: BLE001
                ctx.tally(f"c13:reload-failed:{type(e).__name__}(not judged here)")
                continue
        for t, (m, (cl, g, path)) in enumerate(zip(back.mazes, truth)):
            case = dict(case0, index=t, cl=cl, path=path, solution_dtype=str(np.asarray(m.solution).dtype))
            if not (np.asarray(m.solution).shape == (len(path), 2) and [tuple(int(x) for x in c) for c in m.solution] == path
                    and np.array_equal(np.asarray(m.connection_list, dtype=bool), cl)):
                ctx.tally("c13:reloaded-maze-differs(not judged here)")
                continue
            ctx.ev(); ctx.tally("c13:reloaded-mazes")
            with ctx.guard("C13/reloaded", case):
                ctx.check(bool(m.is_valid_path(m.solution)) is True, "C13/is_valid_path-wrong",
                          f"the maze's own (valid) solution is reported invalid after a {fmt} round trip (solution dtype {np.asarray(m.solution).dtype})", case)
                for i in range(len(path) - 1):
                    a, b = m.solution[i], m.solution[i + 1]
                    ctx.check(bool(m.nodes_connected(a, b)) and bool(m.nodes_connected(b, a)), "C13/nodes_connected-wrong",
                              f"step {path[i]} -> {path[i + 1]} of the maze's own solution (dtype {np.asarray(m.solution).dtype}) reported unconnected in one orientation", dict(case, a=path[i], b=path[i + 1]))
                for i in range(0, len(path), max(1, len(path) // 4)):
                    nb = _tl(m.get_coord_neighbors(m.solution[i]))
                    ctx.check(sorted(nb) == sorted(g.adj[path[i]]), "C13/neighbors-wrong", f"cell {path[i]} (taken from the reloaded solution): got {nb} expected {sorted(g.adj[path[i]])}", case)
                n_ = len(path)
                exp_forks = [i for i, c in enumerate(path) if g.degree(c) > (1 if i in (0, n_ - 1) else 2)]
                idx, _c = m.get_solution_forking_points()
                fidx, _f = m.get_solution_path_following_points()
                ctx.check(list(map(int, idx)) == exp_forks and list(map(int, fidx)) == [i for i in range(n_) if i not in exp_forks],
                          "C13/forking-points-wrong", f"reloaded maze: forks {list(idx)} following {list(fidx)} expected forks {exp_forks}", case)


def run(ctx):
    from maze_dataset.utils import lattice_connection_array, lattice_max_degrees, manhattan_distance

    k = 0
    for (R, C) in ref.EXH_SHAPES:
        slots = ref.lattice_edge_slots(R, C)
        nslots = len(slots)
        for mask in range(1 << nslots):
            k += 1
            if not ctx.mine(k):
                continue
            cl = ref.cl_from_mask(R, C, mask, slots)
            rng = ctx.sub_rng("exh", R, C, mask)
            case = dict(kind="exh", shape=(R, C), mask=mask)
            full = (not ctx.quick) or nslots < 10 or (mask + ctx.seed) % 8 == 0
            g, _ = check_structure(ctx, cl, case, full, rng)
            ctx.tally("c13:exh-structures")
            if mask:
                ctx.nontrivial(R, C, cl)
            _forks(ctx, cl, g, case, rng)
            if k % 2003 == 0:
                ctx.sample(dict(case=case, cl=cl))
    n_big = 1200 if ctx.quick else 6000
    for j in range(n_big):
        if not ctx.mine(j):
            continue
        rng = ctx.sub_rng("big", j)
        if rng.random() < 0.35:
            R, C = int(rng.integers(1, 16)), int(rng.integers(1, 16))
        else:
            R = C = int(rng.integers(2, 16))
        fam, cl = ref.random_structure(R, C, rng)
        case = dict(kind="big", family=fam, shape=(R, C), cl=cl)
        g, mz = check_structure(ctx, cl, case, False, rng)
        ctx.nontrivial(R, C, cl)
        for _ in range(3):
            _forks(ctx, cl, g, case, rng)
        # the same structure as a maze object that came into being another way: read back from its own pictures (colour image, black /
        # white mask, the mask as 0/1 integers, one grey channel 0/255), from its text drawing, from its adjacency list
        if j % 4 == 1 and R * C >= 2:
            from maze_dataset.maze.lattice_maze import LatticeMaze
            px = lib.lattice(cl).as_pixels()
            routes = {"from_pixels(rgb)": lambda: LatticeMaze.from_pixels(px),
                      "from_pixels(bool mask)": lambda: LatticeMaze.from_pixels(px[..., 0] > 0),
                      "from_pixels(0/1 integers)": lambda: LatticeMaze.from_pixels((px[..., 0] > 0).astype(np.int64)),
                      "from_pixels(grey channel 0/255)": lambda: LatticeMaze.from_pixels(np.array(px[..., 0])),
                      "from_ascii": lambda: LatticeMaze.from_ascii(lib.lattice(cl).as_ascii())}
            for rname, make in routes.items():
                try:
                    mz2 = make()
                except Exception as e:  # noqa: BLE001
                    ctx.tally(f"c13:route-not-available:{rname}:{type(e).__name__}(not judged)")
                    continue
                cl_now = np.asarray(mz2.connection_list)
                if cl_now.shape != cl.shape or not np.array_equal(cl_now.astype(bool), cl):
                    ctx.tally(f"c13:route-gives-another-structure:{rname}(not judged here)")
                    continue
                ctx.tally("c13:objects-built-another-way")
                check_structure(ctx, cl, dict(kind="big-other-route", route=rname, family=fam, shape=(R, C), cl=cl), False, rng, maze=mz2)
        # the same object after its connection structure changed (walls opened / closed in place, or the array re-bound the way
        # gen_dfs_percolation does): every view is judged again against the structure the object holds now
        slots = ref.lattice_edge_slots(R, C)
        if slots and j % 3 == 0:
            for step in range(2):
                how = "in-place" if (j // 3 + step) % 2 == 0 else "re-bound"
                try:
                    if how == "in-place":
                        for i in rng.choice(len(slots), size=min(len(slots), int(rng.integers(1, 4))), replace=False):
                            d, r, c = slots[int(i)]
                            mz.connection_list[d, r, c] = not mz.connection_list[d, r, c]
                    else:
                        new = np.array(mz.connection_list)
                        for i in rng.choice(len(slots), size=min(len(slots), int(rng.integers(1, 4))), replace=False):
                            d, r, c = slots[int(i)]
                            new[d, r, c] = not new[d, r, c]
                        mz.__dict__["connection_list"] = new
                except (ValueError, TypeError) as e:
                    ctx.tally(f"c13:edit-not-possible:{type(e).__name__}")
                    break
                cl2 = np.array(mz.connection_list, dtype=bool)
                ctx.tally(f"c13:same-object-after-edit:{how}")
                g2, _ = check_structure(ctx, cl2, dict(kind="big-edited", how=how, family=fam, shape=(R, C), cl_before=cl, cl=cl2), False, rng, maze=mz)
                _forks(ctx, cl2, g2, dict(kind="big-edited", how=how, shape=(R, C), cl=cl2), rng)
        if j < 2:
            ctx.sample(case)
    _reloaded(ctx, 24 if ctx.quick else 240)
    _generator_made(ctx, 400 if ctx.quick else 4000)
    # the batch edge test on large grids with the int8 edge arrays the library itself produces (row + col past 127)
    from maze_dataset.token_utils import is_connection as _isc
    for j, (R, C) in enumerate([(70, 70), (100, 100), (127, 127), (2, 127), (64, 65), (120, 40)]):
        if not ctx.mine(j):
            continue
        rng = ctx.sub_rng("bigedges", j)
        cl = ref.bernoulli_cl(R, C, 0.5, rng)
        slots = ref.lattice_edge_slots(R, C)
        edges = []
        for (d, r, c) in slots:
            a = (r, c); b = (r + 1, c) if d == 0 else (r, c + 1)
            edges.append((a, b) if (r + c + d) % 2 else (b, a))
        exp = np.array([bool(cl[sl]) for sl in slots])
        for dt in (np.int8, np.int16, np.int64):
            with ctx.guard("C13/is_connection", dict(shape=(R, C), dtype=np.dtype(dt).name)):
                res = np.asarray(_isc(np.array(edges, dtype=dt), cl), dtype=bool)
                ctx.ev(); ctx.tally("c13:is_connection-large-grid")
                bad = np.nonzero(res != exp)[0]
                ctx.check(len(bad) == 0, "C13/is_connection-wrong", lambda: f"{len(bad)} of {len(exp)} edges wrong on {R}x{C} with {np.dtype(dt).name} coordinates, e.g. {edges[int(bad[0])]} -> {bool(res[int(bad[0])])}", dict(shape=(R, C), dtype=np.dtype(dt).name))
    # lattice helpers
    for n in range(1, 21 if ctx.quick else 51):
        if not ctx.mine(n):
            continue
        with ctx.guard("C13/lattice_connection_array", dict(n=n)):
            arr = lattice_connection_array(n)
            ctx.ev(); ctx.tally("c13:lattice_connection_array")
            got = [frozenset((tuple(int(x) for x in e[0]), tuple(int(x) for x in e[1]))) for e in arr]
            exp = Graph(ref.full_cl(n, n)).edges()
            ctx.check(len(got) == len(exp) == 2 * n * (n - 1) and set(got) == exp, "C13/lattice_connection_array-wrong", f"n={n} got {len(got)} edges", dict(n=n))
        with ctx.guard("C13/lattice_max_degrees", dict(n=n)):
            md = lattice_max_degrees(n)
            ctx.ev(); ctx.tally("c13:lattice_max_degrees")
            gf = Graph(ref.full_cl(n, n))
            if n >= 2:
                exp = np.array([[gf.degree((r, c)) for c in range(n)] for r in range(n)])
                ctx.check(np.array_equal(md, exp), "C13/lattice_max_degrees-wrong", lambda: f"n={n} got {np.asarray(md).tolist()}", dict(n=n))
        rng = ctx.sub_rng("mh", n)
        pts = rng.integers(0, 50, size=(20, 2, 2))
        with ctx.guard("C13/manhattan_distance", dict(n=n)):
            d = manhattan_distance(pts)
            ctx.ev(); ctx.tally("c13:manhattan", 20)
            exp = np.abs(pts[:, 0, :] - pts[:, 1, :]).sum(axis=1)
            ctx.check(np.array_equal(np.asarray(d), exp), "C13/manhattan-wrong", f"{pts.tolist()}", dict(n=n))
            d1 = manhattan_distance(pts[0])
            ctx.check(int(d1) == int(exp[0]), "C13/manhattan-single-wrong", f"{pts[0].tolist()} -> {d1}", dict(n=n))
