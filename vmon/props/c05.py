"""C05 — datasets survive serialization and disk round trips unchanged."""

from __future__ import annotations

import json
import os
import warnings

import numpy as np

from .. import c04_child, lib, ref
from ..ref import Graph

OPTIMISED_LAST_SHARD = True  # the last shard runs under python -O (no assert statements)
LEVEL = "exploration"
TECHNIQUE = 'runtime monitoring: round-trip monitor comparing a pre-serialization snapshot with the loaded dataset for every format (full/minimal/minimal_soln_cat/auto by threshold), in memory and through zanj files, datasets and collections'
RULE = ("datasets from every generator and harness-built ones (ragged solutions incl. one-cell, two-cell and maximal-length paths), "
        "with/without per-maze generation_meta, with/without collected metadata, lengths {1,2,5,17,100,101}, under every setting of the "
        "minimal-serialization threshold {None,0,1,n-1,n,n+1,100,-1}: load(serialize()), load(_serialize_full/_minimal/"
        "_minimal_soln_cat()) in memory and save()/read() through a zanj file, for MazeDataset and MazeDatasetCollection (members may "
        "be empty in the full format). The loaded dataset is compared with a deep snapshot taken *before* serializing: count, order, "
        "connection list, solution, start, end per maze (np.array_equal), configuration field by field, collected-metadata keys "
        "(after str()) and counts. non-trivial & distinct = distinct (dataset content, format, channel, threshold) round trips of "
        "datasets with >= 2 mazes of different solution lengths")
ASSUMPTIONS = ["minimal formats legitimately collect metadata in place and append one collect_generation_meta provenance entry",
               "JSON object keys are strings, so metadata keys are compared after str()", "zanj / numpy .npy storage is trusted"]
NSHARDS = {"quick": 16, "thorough": 16}
FORMATS = ["auto", "full", "minimal", "minimal_soln_cat"]
THRESHOLDS = {"quick": {**{f"c05:{f}:{c}": 30 for f in FORMATS for c in ("memory", "file")}, "c05:collections": 40,
                        "c05:collection-empty-member": 10, "c05:no-meta-at-all": 30, "c05:precollected": 30, "c05:with-meta": 100,
                        "c05:len>=100": 8, "c05:one-cell-solution": 30, "c05:two-cell-solution": 30, "c05:meta-keys-compared": 100,
                        "c05:auto-picked-minimal": 20, "c05:auto-picked-full": 20,
                        "c05:solution>127-cells": 20, "c05:solution>255-cells": 3, "c05:len>127": 8, "c05:overwrite-same-config": 40, "c05:reserialize-after-in-place-edit": 120, "c05:float-metadata-key-many-digits": 60, "c05:collection-members-with-equal-configs": 20, "c05:filter-history": 100, "c05:filter-history-repeated-entry": 30, "c05:total-solution-cells>32767": 8, "c05:generator-kwarg:list": 20, "c05:re-arranged-after-load": 300, "c05:earlier-save-to-same-path-failed": 20, "c05:grid-side>128": 8, "c05:config-seed-0": 20, "c05:endpoint-options-in-config": 8, "c05:generator-kwarg:tuple": 3, "c05:hand-built-from-callers-config": 5, "c05:config-compared-with-library-eq": 1000}}
THRESHOLDS["thorough"] = dict(THRESHOLDS["quick"])
ANCHORS = ["maze_dataset.dataset.maze_dataset:MazeDataset.serialize", "maze_dataset.dataset.maze_dataset:MazeDataset.load",
           "maze_dataset.dataset.maze_dataset:MazeDataset._load_full", "maze_dataset.dataset.maze_dataset:MazeDataset._load_minimal",
           "maze_dataset.dataset.maze_dataset:MazeDataset._load_minimal_soln_cat",
           "maze_dataset.dataset.maze_dataset:MazeDataset._serialize_full",
           "maze_dataset.dataset.maze_dataset:MazeDataset._serialize_minimal",
           "maze_dataset.dataset.maze_dataset:MazeDataset._serialize_minimal_soln_cat",
           "maze_dataset.dataset.collected_dataset:MazeDatasetCollection.serialize",
           "maze_dataset.dataset.collected_dataset:MazeDatasetCollection.load"]
AMBIENT = dict(generators=True, solver=False, solved=True)


def cfg_fields(cfg):
    def norm(x):
        if isinstance(x, (list, tuple)):
            return [norm(v) for v in x]
        if isinstance(x, dict):
            return {str(k): norm(v) for k, v in x.items()}
        if isinstance(x, np.generic):
            return x.item()
        return x

    return dict(name=cfg.name, grid_n=cfg.grid_n, n_mazes=cfg.n_mazes, seed=cfg.seed, maze_ctor=getattr(cfg.maze_ctor, "__name__", None),
                maze_ctor_kwargs=norm(cfg.maze_ctor_kwargs), endpoint_kwargs=norm(cfg.endpoint_kwargs),
                applied_filters=[dict(name=f.get("name"), args=norm(list(f.get("args", ()))), kwargs=norm(f.get("kwargs", {}))) for f in cfg.applied_filters],
                seq_len_min=cfg.seq_len_min, seq_len_max=cfg.seq_len_max)


def snapshot(ds):
    return dict(
        mazes=[dict(cl=np.array(m.connection_list, copy=True), sol=np.array(m.solution, copy=True),
                    s=np.array(m.start_pos, copy=True), e=np.array(m.end_pos, copy=True)) for m in ds.mazes],
        cfg=cfg_fields(ds.cfg),
        meta=None if ds.generation_metadata_collected is None else
        {str(k): {str(kk): vv for kk, vv in v.items()} for k, v in ds.generation_metadata_collected.items()},
    )


def meta_norm(meta):
    if meta is None:
        return None
    return {str(k): {str(kk): (int(vv) if isinstance(vv, (int, np.integer)) else vv) for kk, vv in v.items()} for k, v in meta.items()}


def _safe_diff(a, b):
    try:
        return a.diff(b)
    except Exception as e:  # noqa: BLE001
        return f"(diff raised {type(e).__name__})"


def compare(ctx, snap, ds_after_cfg, loaded, mech, case, expect_meta_from=None, ds_cfg=None):
    from maze_dataset import MazeDataset

    if not ctx.check(isinstance(loaded, MazeDataset), f"{mech}/not-a-dataset", f"{type(loaded).__name__}", case):
        return
    n = len(snap["mazes"])
    if not ctx.check(len(loaded) == n and len(loaded.mazes) == n, f"{mech}/maze-count-differs", f"loaded {len(loaded)} expected {n}", case):
        return
    for i, (a, m) in enumerate(zip(snap["mazes"], loaded.mazes)):
        ok = (np.asarray(m.connection_list).shape == a["cl"].shape and np.array_equal(m.connection_list, a["cl"]))
        if not ok:
            ctx.violation(f"{mech}/connection-list-differs", f"maze {i}", dict(case, index=i)); break
        sol = np.asarray(m.solution)
        if not (sol.shape == a["sol"].shape and np.array_equal(sol, a["sol"])):
            ctx.violation(f"{mech}/solution-differs", f"maze {i}: loaded {sol.tolist()} expected {a['sol'].tolist()}", dict(case, index=i)); break
        if not (np.array_equal(np.asarray(m.start_pos), a["s"]) and np.array_equal(np.asarray(m.end_pos), a["e"])):
            ctx.violation(f"{mech}/ends-differ", f"maze {i}: loaded {m.start_pos}->{m.end_pos} expected {a['s']}->{a['e']}", dict(case, index=i)); break
    # configuration: equal to the dataset's config after the call; the only tolerated drift from the pre-call snapshot is the provenance entry
    got = cfg_fields(loaded.cfg)
    ctx.check(got == ds_after_cfg, f"{mech}/config-differs",
              lambda: "fields: " + ", ".join(f"{k}: loaded {got[k]!r} vs dataset {ds_after_cfg[k]!r}" for k in got if got[k] != ds_after_cfg[k])[:800], case)
    # ... and equal under the library's own ==, with the generator kwargs compared as the objects they are (a list is not a tuple)
    if ds_cfg is not None and got == ds_after_cfg:
        ctx.tally("c05:config-compared-with-library-eq")
        kw_l, kw_d = loaded.cfg.maze_ctor_kwargs, ds_cfg.maze_ctor_kwargs
        ek_l, ek_d = loaded.cfg.endpoint_kwargs, ds_cfg.endpoint_kwargs
        if repr(ek_l) != repr(ek_d):
            ctx.violation(f"{mech}/config-not-equal/endpoint_kwargs", f"dataset holds {ek_d!r}, loaded config holds {ek_l!r}; loaded.cfg == ds.cfg is {loaded.cfg == ds_cfg}", case)
        elif repr(kw_l) != repr(kw_d) and isinstance(kw_l, dict) and isinstance(kw_d, dict) and set(kw_l) == set(kw_d):
            kinds = sorted({f"{type(kw_d[k]).__name__}-read-back-as-{type(kw_l[k]).__name__}" for k in kw_d if type(kw_d[k]) is not type(kw_l[k])}) or ["values-differ"]
            for kd in kinds:
                ctx.violation(f"{mech}/config-not-equal/maze_ctor_kwargs/{kd}", f"dataset holds {kw_d!r}, loaded config holds {kw_l!r}; loaded.cfg == ds.cfg is {loaded.cfg == ds_cfg}", case)
        else:
            try:
                eq = bool(loaded.cfg == ds_cfg)
            except Exception as e:  # noqa: BLE001
                eq = None
                ctx.violation(f"{mech}/config-eq-raises/{type(e).__name__}", repr(e)[:300], case)
            if eq is not None:
                ctx.check(eq, f"{mech}/config-not-equal", lambda: f"loaded.cfg != ds.cfg although every compared field agrees up to list/tuple: diff {_safe_diff(loaded.cfg, ds_cfg)}"[:800], case)
    before = dict(snap["cfg"]); after = dict(ds_after_cfg)
    fb, fa = before.pop("applied_filters"), after.pop("applied_filters")
    drift_ok = before == after and (fa == fb or (fa[:-1] == fb and fa[-1]["name"] == "collect_generation_meta"))
    ctx.check(drift_ok, f"{mech}/serialization-changed-config", lambda: f"before {snap['cfg']} after {ds_after_cfg}"[:800], case)
    # collected metadata keeps keys and counts
    exp_meta = expect_meta_from
    if exp_meta is not None:
        ctx.tally("c05:meta-keys-compared")
        gm = meta_norm(loaded.generation_metadata_collected)
        ctx.check(gm == exp_meta, f"{mech}/collected-metadata-differs",
                  lambda: f"loaded keys {sorted(gm) if gm else gm} expected {sorted(exp_meta)}; "
                          + "; ".join(f"{k}: {str(gm.get(k))[:80]} vs {str(exp_meta[k])[:80]}" for k in exp_meta if not gm or gm.get(k) != exp_meta[k])[:600], case)


def build_dataset(ctx, rng, j):
    """returns (ds, tags)"""
    from maze_dataset import MazeDataset, MazeDatasetConfig
    from maze_dataset.generation.generators import GENERATORS_MAP

    tags = []
    g = int(rng.integers(2, 11))
    n = [1, 2, 5, 17, 3, 8][int(rng.integers(6))]
    if j % 23 == 0:
        n = 100 if j % 46 == 0 else 101
        g = int(rng.integers(2, 6))
    kind = j % 4
    if j % 16 == 7:
        kind = 3
        g = int(rng.integers(12, 18))  # long corridors: solutions of > 127 and > 255 cells (storage dtypes of the minimal formats)
        n = int(rng.integers(2, 5))
    if j % 29 == 3:
        # many mazes (more than 127 / 255): index and length columns of the minimal formats
        n = [130, 260, 300][(j // 29) % 3]
        g = int(rng.integers(2, 5))
        kind = (j // 29) % 3
        tags.append("len>127")
    if j % 40 == 11:
        # total solution length past 32767 cells (offsets of the concatenated-solutions format)
        kind, g, n = 3, 17, 120
        tags.append("total-solution-cells>32767")
    with warnings.catch_warnings():
        warnings.simplefilter("ignore")
        if kind in (0, 1, 2):
            gen, kw = [("gen_dfs", {}), ("gen_wilson", {}), ("gen_percolation", dict(p=1.0)), ("gen_dfs_percolation", dict(p=0.3)),
                       ("gen_dfs", dict(accessible_cells=max(2, g))), ("gen_prim", {}), ("gen_dfs", dict(do_forks=False)),
                       ("gen_dfs_percolation", dict(p=1 / 3)), ("gen_percolation", dict(p=0.9876543210123)), ("gen_dfs_percolation", dict(p=0.1 * 3)),
                       ("gen_dfs", dict(accessible_cells=0.123456789012))][int(rng.integers(11))]
            if isinstance(kw.get("p", kw.get("accessible_cells")), float) and len(repr(kw.get("p", kw.get("accessible_cells")))) > 9:
                tags.append("float-metadata-key-many-digits")
            if gen == "gen_wilson" and n >= 100:
                gen = "gen_dfs"
            rewrap = False
            if j % 5 == 2 and gen != "gen_wilson":
                # a sequence-valued generator argument, as a list (what a json / yaml experiment file gives) or as a tuple (what the notebooks show)
                kw = dict(kw)
                sc = [int(rng.integers(g)), int(rng.integers(g))]
                kw["start_coord"] = sc if (j // 5) % 2 == 0 else tuple(sc)
                tags.append("generator-kwarg:" + type(kw["start_coord"]).__name__)
                rewrap = (j // 10) % 3 != 2
            ek = {}
            if j % 5 == 4 and g >= 2 and (gen, kw) in (("gen_dfs", {}), ("gen_prim", {})):
                # endpoint options in the configuration (coordinate lists hold tuples, the documented type)
                ek = [dict(allowed_start=[(0, 0)], endpoints_not_equal=True), dict(allowed_end=[(g - 1, g - 1), (0, g - 1)]),
                      dict(deadend_start=True, deadend_end=True, endpoints_not_equal=True),
                      dict(allowed_start=[(0, 0), (1, 0)], allowed_end=[(g - 1, g - 1)], endpoints_not_equal=False),
                      dict(except_when_invalid=True, deadend_end=True)][(j // 5) % 5]
                tags.append("endpoint-options-in-config")
                rewrap = (j // 25) % 2 == 0
            cfg = MazeDatasetConfig(name=f"c05-{j}", grid_n=g, n_mazes=n, maze_ctor=GENERATORS_MAP[gen], maze_ctor_kwargs=kw,
                                    seed=int(rng.integers(1 << 30)), **(dict(endpoint_kwargs=ek) if ek else {}))
            ds = MazeDataset.generate(cfg)
            if rewrap:
                # put together by hand from the caller's own config object (generate() works on a copy of it)
                ds = MazeDataset(cfg, ds.mazes)
                tags.append("hand-built-from-callers-config")
            tags.append("with-meta")
            if j % 3 == 1:
                # a recorded filter history, incl. the same filter with the same arguments twice in a row and A,B,A patterns
                # (parameters chosen so that every maze is kept)
                hist = [[("path_length", (1,), {}), ("path_length", (1,), {})],
                        [("start_end_distance", (), dict(min_distance=0)), ("truncate_count", (n,), {}), ("start_end_distance", (), dict(min_distance=0))],
                        [("truncate_count", (), dict(max_count=n + 5)), ("truncate_count", (), dict(max_count=n + 5)), ("path_length", (), dict(min_length=0))],
                        [("path_length", (1,), {})]][(j // 3) % 4]
                for fname, fa, fk in hist:
                    ds = getattr(ds.filter_by, fname)(*fa, **fk)
                tags.append("filter-history")
                if len(hist) >= 2 and hist[0] == hist[1]:
                    tags.append("filter-history-repeated-entry")
            if kind == 1:
                ds = ds.filter_by.collect_generation_meta()
                tags = ["precollected"] + [t for t in tags if t.startswith(("filter-history", "generator-kwarg", "hand-built", "endpoint-options"))]
            elif kind == 2 and rng.random() < 0.5:
                ds = ds.filter_by.strip_generation_meta()
                tags = ["no-meta-at-all"] + [t for t in tags if t.startswith(("filter-history", "generator-kwarg", "hand-built", "endpoint-options"))]
        else:
            # harness-built mazes: ragged solutions incl. one-cell, two-cell and maximal paths, no generation metadata
            mazes = []
            if j % 40 == 23:
                # a grid with sides past 128: coordinates beyond what an 8-bit signed integer holds, routes between far corners
                g, n = [129, 130, 140, 200][(j // 40) % 4], 2
                tags.append("grid-side>128")
            for t in range(n):
                fam = ["tree", "cyc3", "perc6", "serpentine"][t % 4] if g < 12 else (["serpentine", "tree"][t % 2] if n < 100 else "serpentine")
                if g > 128:
                    fam = "tree"
                _, cl = ref.random_structure(g, g, rng, fam)
                gr = Graph(cl)
                cells = ref.all_cells(g, g)
                s = cells[int(rng.integers(len(cells)))]
                comp = sorted(gr.component_of(s))
                if t % 5 == 0 and n < 100:
                    e = s; tags.append("one-cell-solution")
                elif t % 5 == 1 and gr.adj[s] and n < 100:
                    e = gr.adj[s][0]; tags.append("two-cell-solution")
                elif fam == "serpentine":
                    s, e = (0, 0), ((g - 1), (g - 1) if g % 2 else 0)
                    if g >= 12:
                        tags.append("solution>127-cells")
                    if g >= 17:
                        tags.append("solution>255-cells")
                elif g > 128:
                    s, e = [((0, 0), (g - 1, g - 1)), ((g - 1, 0), (3, g - 1))][t % 2]
                else:
                    e = comp[int(rng.integers(len(comp)))]
                mazes.append(lib.solved(cl, gr.shortest_path(s, e, rng)))
            # (a dataset put together by hand keeps the caller's own config object; seed 0 is a seed like any other)
            seed_h = 0 if j % 4 == 3 and (j // 4) % 3 == 0 else int(rng.integers(1 << 30))
            if seed_h == 0:
                tags.append("config-seed-0")
            cfg = MazeDatasetConfig(name=f"c05h-{j}", grid_n=g, n_mazes=n, seed=seed_h)
            ds = MazeDataset(cfg, mazes)
            tags.append("no-meta-at-all")
    if n >= 100:
        tags.append("len>=100")
    return ds, sorted(set(tags))


def roundtrips(ctx, make_ds, j, rng, tags, n):
    """each round trip gets a freshly built dataset (serialization may legitimately collect metadata in place)"""
    from maze_dataset import MazeDataset
    from maze_dataset.dataset import maze_dataset as md

    thr_choices = [None, 0, 1, max(n - 1, 0), n, n + 1, 100, -1]
    plan = []
    for fmt in FORMATS:
        for chan in ("memory", "file"):
            if fmt != "auto" and chan == "file":
                continue
            plan.append((fmt, chan))
    plan.append(("auto", "file"))
    # the three explicit formats through a file are reached by choosing the threshold
    for fmt, chan in plan:
        thr = thr_choices[int(rng.integers(len(thr_choices)))] if fmt == "auto" else 100
        ds = make_ds()
        snap = snapshot(ds)
        case = dict(j=j, fmt=fmt, channel=chan, threshold=thr, n=n, grid_n=ds.cfg.grid_n, tags=tags, ds_name=ds.cfg.name)
        mech = f"C05/{fmt}/{chan}"
        old_thr = md.SERIALIZE_MINIMAL_THRESHOLD
        try:
            md.set_serialize_minimal_threshold(thr)
            with warnings.catch_warnings():
                warnings.simplefilter("ignore")
                if chan == "memory":
                    data = {"auto": ds.serialize, "full": ds._serialize_full, "minimal": ds._serialize_minimal,
                            "minimal_soln_cat": ds._serialize_minimal_soln_cat}[fmt]()
                    used = data["__format__"]
                    loaded = MazeDataset.load(data)
                else:
                    path = os.path.join(ctx.work, f"c05-{j}-{fmt}.zanj")
                    if j % 4 == 1:
                        # an earlier attempt to write to the same path that fails (an empty dataset cannot be written in the compact
                        # formats; the caller catches the error and carries on), then the real save
                        try:
                            md.set_serialize_minimal_threshold(0)
                            MazeDataset(ds.cfg, []).save(path)
                            ctx.tally("c05:earlier-save-to-same-path-succeeded(not judged)")
                        except Exception:  # noqa: BLE001
                            ctx.tally("c05:earlier-save-to-same-path-failed")
                        finally:
                            md.set_serialize_minimal_threshold(thr)
                    ds.save(path)
                    loaded = MazeDataset.read(path)
                    os.unlink(path)
                    used = "MazeDataset:minimal" if (thr is not None and n >= thr) else "MazeDataset"
            if fmt == "auto":
                ctx.tally("c05:auto-picked-minimal" if used != "MazeDataset" else "c05:auto-picked-full")
                want_min = thr is not None and n >= thr
                if (used != "MazeDataset") != want_min:
                    ctx.tally("c05:threshold-picked-unexpected-format(observed, not judged)")
            ctx.ev(); ctx.tally(f"c05:{fmt}:{chan}")
            for t in tags:
                ctx.tally(f"c05:{t}")
            # expected collected metadata: what the dataset holds after the call (minimal formats collect), else what it held before
            exp_meta = meta_norm(ds.generation_metadata_collected) if ds.generation_metadata_collected is not None else snap["meta"]
            if snap["meta"] is not None:
                # pre-existing collected metadata must be unchanged by the call itself
                ctx.check(meta_norm(ds.generation_metadata_collected) == snap["meta"], f"{mech}/serialization-changed-collected-metadata", "", case)
            compare(ctx, snap, cfg_fields(ds.cfg), loaded, mech, case, expect_meta_from=exp_meta, ds_cfg=ds.cfg)
            if n >= 2 and isinstance(loaded, MazeDataset) and len(loaded.mazes) == n and (j + len(fmt)) % 2 == 0:
                # second generation: what was loaded is re-arranged (reversed, rotated) into a new dataset and written again
                order = list(range(n))[::-1] if j % 4 < 2 else list(range(1, n)) + [0]   # (no object twice: collecting metadata empties each maze's own)
                re_ds = MazeDataset(loaded.cfg, [loaded.mazes[k] for k in order])
                snap_re = snapshot(re_ds)
                for fmt2 in ("minimal", "minimal_soln_cat", "full"):
                    data2 = {"full": re_ds._serialize_full, "minimal": re_ds._serialize_minimal, "minimal_soln_cat": re_ds._serialize_minimal_soln_cat}[fmt2]()
                    back2 = MazeDataset.load(data2)
                    ctx.tally("c05:re-arranged-after-load")
                    compare(ctx, snap_re, cfg_fields(re_ds.cfg), back2, f"C05/{fmt2}/re-arranged-after-{fmt}-load", dict(case, order=order[:12]),
                            expect_meta_from=meta_norm(re_ds.generation_metadata_collected) if re_ds.generation_metadata_collected is not None else snap_re["meta"])
            lens = {len(m["sol"]) for m in snap["mazes"]}
            if n >= 2 and len(lens) >= 2:
                ctx.nontrivial(j, fmt, chan, thr)
        except Exception as e:  # noqa: BLE001
            import traceback
            sub = "no-meta-at-all" if "no-meta-at-all" in tags else ("with-meta" if "with-meta" in tags else "precollected")
            ctx.violation(f"{mech}/{sub}/exception/{type(e).__name__}", traceback.format_exc()[-1800:], case)
        finally:
            md.set_serialize_minimal_threshold(old_thr)
    # (a) a file that already holds a dataset with an equal configuration is overwritten by save(): the reader gets what was saved
    #     last;  (b) the same dataset object serialized again after its public maze list was reordered / extended in place
    if j % 2 == 0 and n >= 2:
        old_thr = md.SERIALIZE_MINIMAL_THRESHOLD
        try:
            thr = [None, 1][(j // 2) % 2]
            md.set_serialize_minimal_threshold(thr)
            with warnings.catch_warnings():
                warnings.simplefilter("ignore")
                a = make_ds()
                b = make_ds()
                b.mazes.reverse()                      # equal configuration, other order of mazes
                snap_b = snapshot(b)
                path = os.path.join(ctx.work, f"c05-{j}-over.zanj")
                a.save(path)
                b.save(path)
                loaded = MazeDataset.read(path)
                os.unlink(path)
            ctx.ev(); ctx.tally("c05:overwrite-same-config")
            exp_meta = meta_norm(b.generation_metadata_collected) if b.generation_metadata_collected is not None else snap_b["meta"]
            compare(ctx, snap_b, cfg_fields(b.cfg), loaded, "C05/overwrite-existing-file-with-equal-config", dict(j=j, n=n, threshold=thr, tags=tags), expect_meta_from=exp_meta)
            for fmt in ("minimal", "minimal_soln_cat", "full"):
                with warnings.catch_warnings():
                    warnings.simplefilter("ignore")
                    ds = make_ds()
                    ser = {"full": ds._serialize_full, "minimal": ds._serialize_minimal, "minimal_soln_cat": ds._serialize_minimal_soln_cat}[fmt]
                    MazeDataset.load(ser())            # first serialization of this object
                    ds.mazes.sort(key=lambda m: (len(m.solution), m.solution.tobytes()))   # in-place reorder by solution length
                    if (j // 2) % 3 == 0:
                        ds.mazes.extend(make_ds().mazes[:2]); ds.update_self_config()
                    snap2 = snapshot(ds)
                    loaded2 = MazeDataset.load(ser())
                ctx.ev(); ctx.tally("c05:reserialize-after-in-place-edit")
                exp_meta = meta_norm(ds.generation_metadata_collected) if ds.generation_metadata_collected is not None else snap2["meta"]
                compare(ctx, snap2, cfg_fields(ds.cfg), loaded2, f"C05/{fmt}/reserialize-after-in-place-edit", dict(j=j, n=n, fmt=fmt, tags=tags), expect_meta_from=exp_meta)
        except Exception as e:  # noqa: BLE001
            import traceback
            ctx.violation(f"C05/overwrite-or-reserialize/exception/{type(e).__name__}", traceback.format_exc()[-1500:], dict(j=j, n=n, tags=tags))
        finally:
            md.set_serialize_minimal_threshold(old_thr)
    # explicit minimal formats through a file: write the serialized form with zanj directly
    from zanj import ZANJ

    for fmt in ("full", "minimal", "minimal_soln_cat"):
        ds = make_ds()
        snap = snapshot(ds)
        case = dict(j=j, fmt=fmt, channel="file", n=n, tags=tags)
        mech = f"C05/{fmt}/file"
        try:
            with warnings.catch_warnings():
                warnings.simplefilter("ignore")
                data = {"full": ds._serialize_full, "minimal": ds._serialize_minimal, "minimal_soln_cat": ds._serialize_minimal_soln_cat}[fmt]()
                path = os.path.join(ctx.work, f"c05-{j}-{fmt}-x.zanj")
                ZANJ().save(data, path)
                loaded = MazeDataset.read(path)
                os.unlink(path)
            ctx.ev(); ctx.tally(f"c05:{fmt}:file")
            exp_meta = meta_norm(ds.generation_metadata_collected) if ds.generation_metadata_collected is not None else snap["meta"]
            compare(ctx, snap, cfg_fields(ds.cfg), loaded, mech, case, expect_meta_from=exp_meta, ds_cfg=ds.cfg)
        except Exception as e:  # noqa: BLE001
            import traceback
            sub = "no-meta-at-all" if "no-meta-at-all" in tags else ("with-meta" if "with-meta" in tags else "precollected")
            ctx.violation(f"{mech}/{sub}/exception/{type(e).__name__}", traceback.format_exc()[-1800:], case)


def collections(ctx, j, rng):
    from maze_dataset import MazeDataset, MazeDatasetConfig
    from maze_dataset.dataset import maze_dataset as md
    from maze_dataset.dataset.collected_dataset import MazeDatasetCollection, MazeDatasetCollectionConfig
    from maze_dataset.generation.generators import GENERATORS_MAP

    k = int(rng.integers(1, 7))
    lens = [int(rng.integers(0, 5)) if rng.random() < 0.8 else 0 for _ in range(k)]
    chan = "memory" if j % 2 else "file"
    thr = [None, 100, 3][j % 3] if all(L > 0 for L in lens) else [None, 100][j % 2]
    case = dict(j=j, lens=lens, channel=chan, threshold=thr)
    old = md.SERIALIZE_MINIMAL_THRESHOLD
    try:
        with warnings.catch_warnings():
            warnings.simplefilter("ignore")
            members = []
            twins = (j % 3 == 2)  # members whose configs compare equal (n_mazes is excluded from comparison) but whose contents differ
            if twins:
                ctx.tally("c05:collection-members-with-equal-configs")
            g_tw, seed_tw = int(rng.integers(2, 6)), int(rng.integers(1 << 30))
            for t, L in enumerate(lens):
                if twins:
                    cfg = MazeDatasetConfig(name="twin", grid_n=g_tw, n_mazes=L, maze_ctor=GENERATORS_MAP["gen_dfs"], maze_ctor_kwargs={}, seed=seed_tw)
                    ds_t = MazeDataset.generate(cfg)
                    if t % 2 and len(ds_t.mazes) > 1:
                        ds_t = MazeDataset(cfg, list(reversed(ds_t.mazes)))  # same config, mazes in another order
                    members.append(ds_t)
                    continue
                cfg = MazeDatasetConfig(name=f"m{t}", grid_n=int(rng.integers(2, 6)), n_mazes=L,
                                        maze_ctor=GENERATORS_MAP[["gen_dfs", "gen_dfs_percolation"][t % 2]],
                                        maze_ctor_kwargs=[{}, dict(p=0.3)][t % 2], seed=int(rng.integers(1 << 30)))
                members.append(MazeDataset.generate(cfg))
            col_seed = [0, 7, int(rng.integers(1 << 30))][j % 3]
            col = MazeDatasetCollection(MazeDatasetCollectionConfig(name=f"col{j}", maze_dataset_configs=[m.cfg for m in members], seed=col_seed), members)
            snaps = [snapshot(m) for m in members]
            md.set_serialize_minimal_threshold(thr)
            if chan == "memory":
                loaded = MazeDatasetCollection.load(col.serialize())
            else:
                path = os.path.join(ctx.work, f"c05-col-{j}.zanj")
                col.save(path)
                loaded = MazeDatasetCollection.read(path)
                os.unlink(path)
        ctx.ev(); ctx.tally("c05:collections")
        if 0 in lens:
            ctx.tally("c05:collection-empty-member")
        mech = f"C05/collection/{chan}"
        if not ctx.check(isinstance(loaded, MazeDatasetCollection), f"{mech}/not-a-collection", f"{type(loaded).__name__}", case):
            return
        if not ctx.check(len(loaded.maze_datasets) == k, f"{mech}/member-count-differs", f"{len(loaded.maze_datasets)} vs {k}", case):
            return
        ctx.check(loaded.cfg.name == col.cfg.name and [cfg_fields(c) for c in loaded.cfg.maze_dataset_configs] == [cfg_fields(m.cfg) for m in members],
                  f"{mech}/collection-config-differs", "", case)
        ctx.check(loaded.cfg.seed == col.cfg.seed, f"{mech}/collection-config-differs/seed", f"collection config seed {col.cfg.seed} read back as {loaded.cfg.seed}", case)
        try:
            ctx.check(bool(loaded.cfg == col.cfg), f"{mech}/collection-config-not-equal", lambda: f"loaded.cfg != collection.cfg: {_safe_diff(loaded.cfg, col.cfg)}"[:600], case)
        except Exception as e:  # noqa: BLE001
            ctx.violation(f"{mech}/collection-config-eq-raises/{type(e).__name__}", repr(e)[:300], case)
        for t, (sn, m, lm) in enumerate(zip(snaps, members, loaded.maze_datasets)):
            exp_meta = meta_norm(m.generation_metadata_collected) if m.generation_metadata_collected is not None else sn["meta"]
            compare(ctx, sn, cfg_fields(m.cfg), lm, f"{mech}/member", dict(case, member=t), expect_meta_from=exp_meta, ds_cfg=m.cfg)
        if sum(1 for L in lens if L > 0) >= 2:
            ctx.nontrivial("col", tuple(lens), chan, thr, j)
    except Exception as e:  # noqa: BLE001
        import traceback
        ctx.violation(f"C05/collection/{chan}/exception/{type(e).__name__}", traceback.format_exc()[-1800:], case)
    finally:
        md.set_serialize_minimal_threshold(old)


def run(ctx):
    n_ds = 200 if ctx.quick else 3000
    for j in range(n_ds):
        if not ctx.mine(j):
            continue
        rng0 = ctx.sub_rng("ds", j)
        state = rng0.bit_generator.state

        def make_ds(_state=state, _j=j):
            r = np.random.Generator(np.random.PCG64())
            r.bit_generator.state = _state
            return build_dataset(ctx, r, _j)[0]

        r = np.random.Generator(np.random.PCG64()); r.bit_generator.state = state
        try:
            ds, tags = build_dataset(ctx, r, j)
        except ValueError:
            ctx.tally("rejected:C05/build:ValueError")
            continue
        roundtrips(ctx, make_ds, j, ctx.sub_rng("rt", j), tags, len(ds))
        if j < 3:
            ctx.sample(dict(j=j, n=len(ds), grid_n=ds.cfg.grid_n, tags=tags, solution_lengths=[len(m.solution) for m in ds.mazes][:10]))
    n_col = 100 if ctx.quick else 2000
    for j in range(n_col):
        if ctx.mine(j):
            collections(ctx, j, ctx.sub_rng("col", j))
