"""C18 — configurations round-trip exactly and have stable, discriminating identities."""

from __future__ import annotations

import copy
import json
import subprocess
import warnings

import numpy as np

from ..core import VERIF_ROOT
from ..runner import PY, shard_env

LEVEL = "exploration"
TECHNIQUE = 'runtime monitoring: field-wise round-trip monitor (also through JSON text), hash/file-name tables recomputed in fresh processes across PYTHONHASHSEED values, one-field-different pairs, in-place updates vs fresh configs'
RULE = ("MazeDatasetConfig over the cross product generator x kwargs (JSON-native values) x endpoint options x filter lists x names "
        "(spaces, slashes, unicode) x grid sizes x n_mazes {1,999,1000,10^6,...} x seeds: load(serialize()) and "
        "load(json.loads(json.dumps(serialize()))) compared field by field (same generator function object, kwargs, endpoint "
        "options with coordinate lists restored as lists of tuples, seed, filters with args restored as tuples); stable_hash_cfg "
        "and to_fname recomputed in fresh interpreter processes with PYTHONHASHSEED in {0,1,31337,random}; every pair of "
        "configurations differing in exactly one listed field must hash differently (and compare unequal unless the field is n_mazes); after a field is updated in place, hash and file name must equal those of a fresh config with that content; a reloaded config must compare equal with an empty diff; to_fname() compared with "
        "sanitize(name)-g{n}-n{short(n_mazes)}-a_{gen}-h{hash mod 10^5}; MazeDatasetCollectionConfig likewise. "
        "non-trivial & distinct = distinct configurations with non-default kwargs/options/filters, plus distinct one-field-different pairs")
ASSUMPTIONS = ["muutils sanitize_fname / shorten_numerical_to_str define the two formatted parts of the file name (trusted dependency)",
               "generator kwargs are JSON-native (JSON has no tuples; tuple restoration is promised only for endpoint options and filters)"]
NSHARDS = {"quick": 16, "thorough": 16}
FIELDS = ["name", "grid_n", "n_mazes", "maze_ctor", "maze_ctor_kwargs", "endpoint_kwargs", "seed", "applied_filters"]
THRESHOLDS = {"quick": {"c18:roundtrip": 2000, "c18:roundtrip-json": 2000, "c18:hash-cross-process": 2000, "c18:hashseeds": 3,
                        **{f"c18:pair:{f}": 100 for f in FIELDS}, "c18:fname": 2000, "c18:loaded-config-edited-by-caller": 800, "c18:cache-file-names": 8, "c18:cache-file-names:dot-in-name-or-count": 5, "c18:collection-cfg": 50,
                        "c18:in-place": 500, "c18:serialized-dict-edited-by-caller": 300, "c18:in-place:container-edit": 100, "c18:eq": 500, "c18:tuples-restored:endpoint": 300, "c18:tuples-restored:filters": 300, "c18:gen:gen_dfs": 1,
                        "c18:gen:gen_wilson": 1, "c18:gen:gen_percolation": 1, "c18:gen:gen_dfs_percolation": 1, "c18:gen:gen_prim": 1}}
THRESHOLDS["thorough"] = dict(THRESHOLDS["quick"])
ANCHORS = ["maze_dataset.dataset.maze_dataset:_load_maze_ctor", "maze_dataset.dataset.dataset:_load_applied_filters",
           "maze_dataset.dataset.maze_dataset:MazeDatasetConfig.stable_hash_cfg",
           "maze_dataset.dataset.maze_dataset:MazeDatasetConfig.to_fname",
           "maze_dataset.dataset.collected_dataset:MazeDatasetCollectionConfig.to_fname"]
AMBIENT = dict(generators=False, solver=False, solved=False)

GENS = ["gen_dfs", "gen_wilson", "gen_percolation", "gen_dfs_percolation", "gen_prim"]
KW = {"gen_dfs": [{}, dict(do_forks=False), dict(accessible_cells=20), dict(max_tree_depth=0.5), dict(accessible_cells=0.3, randomized_stack=True, start_coord=[0, 1]),
                  dict(accessible_cells=1.0), dict(max_tree_depth=1.0, accessible_cells=2.0), dict(accessible_cells=1)],
      "gen_wilson": [{}],
      "gen_percolation": [{}, dict(p=1.0), dict(p=0.25, start_coord=[1, 1])],
      "gen_dfs_percolation": [{}, dict(p=0.1), dict(p=0.4, accessible_cells=7)],
      "gen_prim": [{}, dict(do_forks=False), dict(accessible_cells=0.5, max_tree_depth=0.5), dict(max_tree_depth=3.0)]}
EK = [{}, dict(deadend_start=True), dict(deadend_end=True, endpoints_not_equal=True), dict(allowed_start=[(0, 0)]),
      dict(allowed_start=[(0, 0), (1, 1)], allowed_end=[(2, 2), (0, 2), (1, 0)]), dict(allowed_end=[(1, 2)], deadend_start=False, except_when_invalid=True),
      dict(allowed_start=None, allowed_end=[(0, 1)])]
FL = [[], [dict(name="path_length", args=(3,), kwargs={})], [dict(name="start_end_distance", args=(), kwargs=dict(min_distance=2))],
      [dict(name="truncate_count", args=(5,), kwargs={}), dict(name="cut_percentile_shortest", args=(), kwargs=dict(percentile=25.0))],
      [dict(name="remove_duplicates", args=(1, None), kwargs=dict(_max_dataset_len_threshold=500))],
      [dict(name="collect_generation_meta", args=(), kwargs={})],
      [dict(name="path_length", args=(2,), kwargs={}), dict(name="path_length", args=(4,), kwargs={}), dict(name="remove_duplicates_fast", args=(), kwargs={})]]
NAMES = ["test", "demo small", "a/b\\c", "ünïcode-μ", "x" * 40, "long-descriptive-dataset-name-" * 3, "n" * 130, "with.dots_and-dashes", "UPPER lower 123", "tab\tname", "q?*:<>|\"'"]
NM = [1, 2, 999, 1000, 1001, 10**6, 12345, 99999, 100000, 5 * 10**7]


def make_cfg(spec):
    from maze_dataset import MazeDatasetConfig
    from maze_dataset.generation.generators import GENERATORS_MAP

    ek = {k: ([tuple(x) for x in v] if isinstance(v, list) else v) for k, v in spec["endpoint_kwargs"].items()}
    fl = [dict(name=f["name"], args=tuple(f["args"]), kwargs=dict(f["kwargs"])) for f in spec["applied_filters"]]
    with warnings.catch_warnings():
        warnings.simplefilter("ignore")
        return MazeDatasetConfig(name=spec["name"], grid_n=spec["grid_n"], n_mazes=spec["n_mazes"], maze_ctor=GENERATORS_MAP[spec["maze_ctor"]],
                                 maze_ctor_kwargs=copy.deepcopy(spec["maze_ctor_kwargs"]), endpoint_kwargs=ek, seed=spec["seed"], applied_filters=fl)


def draw_spec(rng, key):
    gen = GENS[int(rng.integers(len(GENS)))]
    return dict(key=key, name=NAMES[int(rng.integers(len(NAMES)))], grid_n=int(rng.integers(1, 30)), n_mazes=int(NM[int(rng.integers(len(NM)))]),
                maze_ctor=gen, maze_ctor_kwargs=KW[gen][int(rng.integers(len(KW[gen])))],
                endpoint_kwargs=json.loads(json.dumps(EK[int(rng.integers(len(EK)))])),
                seed=int([0, 42, 7, 2**31 - 1, int(rng.integers(1 << 31))][int(rng.integers(5))]),
                applied_filters=json.loads(json.dumps(FL[int(rng.integers(len(FL)))])))


def mutate(spec, field, rng):
    s = json.loads(json.dumps(spec))
    if field == "name":
        s["name"] = spec["name"] + ("_" if rng.random() < 0.5 else "2")
    elif field == "grid_n":
        s["grid_n"] = spec["grid_n"] + int(rng.integers(1, 4))
    elif field == "n_mazes":
        s["n_mazes"] = spec["n_mazes"] + int(rng.integers(1, 3))
    elif field == "maze_ctor":
        s["maze_ctor"] = [g for g in GENS if g != spec["maze_ctor"]][int(rng.integers(4))]
        s["maze_ctor_kwargs"] = spec["maze_ctor_kwargs"]
    elif field == "maze_ctor_kwargs":
        kw = dict(spec["maze_ctor_kwargs"])
        whole = [k for k, v in kw.items() if isinstance(v, float) and not isinstance(v, bool) and float(v).is_integer()]
        ints = [k for k, v in kw.items() if isinstance(v, int) and not isinstance(v, bool)]
        if whole and rng.random() < 0.7:
            kw[whole[0]] = int(kw[whole[0]])       # proportion 1.0 -> count 1: a different generator argument
        elif ints and rng.random() < 0.5:
            kw[ints[0]] = float(kw[ints[0]])
        elif kw and rng.random() < 0.5:
            k = sorted(kw)[0]
            kw[k] = (not kw[k]) if isinstance(kw[k], bool) else (kw[k] * 0.5 if isinstance(kw[k], float) else kw[k])
            if kw == spec["maze_ctor_kwargs"]:
                kw["extra"] = 1
        else:
            kw["extra"] = 1
        s["maze_ctor_kwargs"] = kw
    elif field == "endpoint_kwargs":
        ek = dict(spec["endpoint_kwargs"])
        if ek.get("allowed_start"):
            ek["allowed_start"] = ek["allowed_start"] + [[3, 3]]
        else:
            ek["deadend_start"] = not ek.get("deadend_start", False)
        s["endpoint_kwargs"] = ek
    elif field == "seed":
        s["seed"] = (spec["seed"] + 1) % (2**31 - 1)
    elif field == "applied_filters":
        fl = list(spec["applied_filters"])
        if fl and rng.random() < 0.5:
            f = dict(fl[-1]); f["args"] = list(f["args"]) + [9]; fl[-1] = f
        else:
            fl = fl + [dict(name="truncate_count", args=[2], kwargs={})]
        s["applied_filters"] = fl
    return s


def _own_ids(cfg):
    """ids of every container that is part of the configuration object's own state (serialize() hands some of them out by
    reference; editing those *is* editing the configuration, which is not what is tested here)"""
    seen = set()

    def walk(o):
        if isinstance(o, (dict, list, tuple, set)):
            if id(o) in seen:
                return
            seen.add(id(o))
            for v in (o.values() if isinstance(o, dict) else o):
                walk(v)

    for v in vars(cfg).values():
        walk(v)
    return seen


def _scramble(o, own, depth=0):
    """destructively edit, in place, every container of a serialized form that serialize() built for the caller (containers that
    belong to the configuration itself are left alone)"""
    if id(o) in own:
        return
    if isinstance(o, dict):
        for k in list(o):
            _scramble(o[k], own, depth + 1)
        for k in list(o)[::2]:
            if depth > 0:
                o.pop(k)
        o["__edited__"] = True
    elif isinstance(o, list):
        for v in o:
            _scramble(v, own, depth + 1)
        o.append("edited")


def fields_of(cfg):
    return dict(name=cfg.name, grid_n=cfg.grid_n, n_mazes=cfg.n_mazes, seed=cfg.seed, seq_len_min=cfg.seq_len_min, seq_len_max=cfg.seq_len_max,
                maze_ctor_kwargs=cfg.maze_ctor_kwargs, endpoint_kwargs=cfg.endpoint_kwargs, applied_filters=cfg.applied_filters)


def typed(x):
    """structure including container types, so that list-vs-tuple differences are visible"""
    if isinstance(x, tuple):
        return ("tuple", [typed(v) for v in x])
    if isinstance(x, list):
        return ("list", [typed(v) for v in x])
    if isinstance(x, dict):
        return ("dict", sorted((str(k), typed(v)) for k, v in x.items()))
    if isinstance(x, bool) or x is None or isinstance(x, str):
        return x
    if isinstance(x, (int, float)):
        return (type(x).__name__, x)  # 1 and 1.0 are different generator arguments (count vs proportion)
    return x


def check_roundtrip(ctx, spec, cfg, via_json):
    from maze_dataset import MazeDatasetConfig

    mech = "C18/roundtrip" + ("-json" if via_json else "")
    case = dict(spec=spec, via_json=via_json)
    with ctx.guard(mech, case):
        with warnings.catch_warnings():
            warnings.simplefilter("ignore")
            ser = cfg.serialize()
            if via_json:
                ser = json.loads(json.dumps(ser))
            back = MazeDatasetConfig.load(ser)
        ctx.ev(); ctx.tally("c18:roundtrip-json" if via_json else "c18:roundtrip")
        ctx.check(back.maze_ctor is cfg.maze_ctor, f"{mech}/generator-function-differs", f"{back.maze_ctor} vs {cfg.maze_ctor}", case)
        a, b = fields_of(cfg), fields_of(back)
        for k in a:
            if k in ("endpoint_kwargs", "applied_filters"):
                continue
            ctx.check(a[k] == b[k] and type(a[k]) is type(b[k]) and typed(a[k]) == typed(b[k]), f"{mech}/field-differs/{k}", f"{k}: {a[k]!r} -> {b[k]!r}", case)
        # endpoint options: coordinate lists restored as lists of tuples
        ek_a, ek_b = a["endpoint_kwargs"], b["endpoint_kwargs"]
        ctx.check(typed(ek_a) == typed(ek_b), f"{mech}/endpoint-options-differ", lambda: f"{ek_a!r} -> {ek_b!r}", case)
        if any(isinstance(v, list) and v for v in ek_a.values()):
            ctx.tally("c18:tuples-restored:endpoint")
        fa = [dict(name=f["name"], args=tuple(f["args"]), kwargs=dict(f["kwargs"])) for f in a["applied_filters"]]
        fb = b["applied_filters"]
        ctx.check(typed(fa) == typed([dict(name=f["name"], args=f["args"], kwargs=dict(f["kwargs"])) for f in fb]),
                  f"{mech}/filters-differ", lambda: f"{fa!r} -> {fb!r}", case)
        if any(f["args"] for f in fa):
            ctx.tally("c18:tuples-restored:filters")
        ctx.check(int(back.stable_hash_cfg()) == int(cfg.stable_hash_cfg()), f"{mech}/hash-changes-over-roundtrip", "", case)
        # the loaded configuration is the caller's own object: a variant is made of it by editing its containers in place (another
        # generator argument, endpoint option, one more recorded filter); every configuration loaded afterwards is judged as usual
        _EDITS[0] += 1
        if _EDITS[0] % 3 == 0:
            try:
                back.maze_ctor_kwargs["do_forks"] = False
                back.maze_ctor_kwargs["vmon_variant"] = _EDITS[0]
                back.endpoint_kwargs["endpoints_not_equal"] = True
                back.applied_filters.append(dict(name="truncate_count", args=(1,), kwargs={}))
                ctx.tally("c18:loaded-config-edited-by-caller")
            except Exception:  # noqa: BLE001
                ctx.tally("c18:loaded-config-not-editable(not judged)")


_EDITS = [0]


def _cache_file_names(ctx):
    """the file the config-driven entry point really writes: exactly one, named `to_fname()` + '.zanj' - also for names that contain
    dots and for maze counts whose shortened form contains one ('1.0K')"""
    import os
    import shutil
    import tempfile
    import warnings

    from maze_dataset import MazeDataset, MazeDatasetConfig
    from maze_dataset.generation.generators import GENERATORS_MAP

    specs = [("plain", 3, 4, "gen_dfs", {}), ("perc_p0.1", 3, 5, "gen_dfs_percolation", dict(p=0.1)), ("hallway_v1.2", 4, 3, "gen_dfs", dict(do_forks=False)),
             ("a.b.c", 2, 6, "gen_dfs", {}), ("big", 2, 1000, "gen_dfs", {}), ("big", 2, 2500, "gen_dfs", {}), ("dotted.name", 2, 1234, "gen_dfs", {}),
             ("trailingdot.", 3, 4, "gen_wilson", {}), ("x", 3, 999, "gen_dfs", {}), ("v2.0-final", 3, 7, "gen_prim", {})]
    for j, (name, g_n, n, gen, kw) in enumerate(specs):
        if not ctx.mine(j):
            continue
        tmp = tempfile.mkdtemp(prefix="c18-cache-", dir=ctx.work)
        case = dict(name=name, grid_n=g_n, n_mazes=n, gen=gen, kwargs=kw)
        try:
            with warnings.catch_warnings():
                warnings.simplefilter("ignore")
                cfg = MazeDatasetConfig(name=name, grid_n=g_n, n_mazes=n, maze_ctor=GENERATORS_MAP[gen], maze_ctor_kwargs=dict(kw), seed=11 + j)
                want = cfg.to_fname() + ".zanj"
                try:
                    MazeDataset.from_config(cfg, local_base_path=tmp, do_download=False)
                except Exception as e:  # noqa: BLE001
                    ctx.violation(f"C18/cache-file/exception/{type(e).__name__}", repr(e)[:300], case)
                    continue
            files = sorted(os.listdir(tmp))
            ctx.ev(); ctx.tally("c18:cache-file-names")
            if "." in name or (1000 <= n < 10000):
                ctx.tally("c18:cache-file-names:dot-in-name-or-count")
            ctx.check(files == [want], "C18/cache-file-not-named-after-to_fname", f"directory holds {files}, to_fname() says {want!r}", case)
        finally:
            shutil.rmtree(tmp, ignore_errors=True)


def _custom_filter_records(ctx):
    """configurations whose recorded filters hold the kind of entry `custom_maze_filter` writes (no 'args' key) or a hand-written
    entry without 'kwargs': serialize -> load either refuses loudly, or gives back an equal configuration with the same records,
    the same hash and the same file name"""
    import copy

    from maze_dataset import MazeDatasetConfig

    recs = [[dict(name="__custom__:is_long", kwargs=dict(min_len=3))], [dict(name="path_length", args=(2,), kwargs={}), dict(name="__custom__:f", kwargs={})],
            [dict(name="truncate_count", args=(3,))], [dict(name="__custom__:g", kwargs={}), dict(name="__custom__:h", kwargs=dict(a=1))]]
    for j, rec in enumerate(recs):
        if not ctx.mine(j):
            continue
        for via in ("load(serialize())", "json", "deepcopy"):
            case = dict(records=rec, via=via)
            with warnings.catch_warnings():
                warnings.simplefilter("ignore")
                cfg = MazeDatasetConfig(name=f"c18-custom-{j}", grid_n=3, n_mazes=4, applied_filters=copy.deepcopy(rec))
                try:
                    h0, f0 = int(cfg.stable_hash_cfg()), cfg.to_fname()
                    if via == "deepcopy":
                        back = copy.deepcopy(cfg)
                    else:
                        ser = cfg.serialize()
                        back = MazeDatasetConfig.load(json.loads(json.dumps(ser)) if via == "json" else ser)
                except Exception:  # noqa: BLE001
                    ctx.tally("c18:custom-filter-record:refused")
                    continue
                ctx.ev(); ctx.tally("c18:custom-filter-record:round-tripped")
                same = [(f.get("name"), tuple(f.get("args", ("<none>",))), dict(f.get("kwargs", {"<none>": 1}))) for f in back.applied_filters] == \
                       [(f.get("name"), tuple(f.get("args", ("<none>",))), dict(f.get("kwargs", {"<none>": 1}))) for f in rec]
                ctx.check(same and int(back.stable_hash_cfg()) == h0 and back.to_fname() == f0, "C18/roundtrip/filters-differ",
                          lambda: f"{via}: records {rec} came back as {back.applied_filters}; hash {h0} -> {int(back.stable_hash_cfg())}"[:600], case)


def run(ctx):
    _cache_file_names(ctx)
    _custom_filter_records(ctx)
    from muutils.misc import sanitize_fname, shorten_numerical_to_str
    from maze_dataset.dataset.collected_dataset import MazeDatasetCollectionConfig

    n = 2400 if ctx.quick else 48000
    specs = []
    for i in range(n):
        if ctx.mine(i):
            specs.append(draw_spec(ctx.sub_rng("spec", i), f"s{i}"))
    local = {}
    for spec in specs:
        ctx.tally(f"c18:gen:{spec['maze_ctor']}")
        with ctx.guard("C18/construct", dict(spec=spec)):
            cfg = make_cfg(spec)
            if len(local) % 4 == 1:
                # a caller that trims / edits the dict it got from serialize() (to log it, say) owns that dict: nothing it does to it
                # may change the identity of this or any other configuration
                _scramble(cfg.serialize(), _own_ids(cfg))
                ctx.tally("c18:serialized-dict-edited-by-caller")
            h = int(cfg.stable_hash_cfg())
            fn = cfg.to_fname()
            local[spec["key"]] = [h, fn]
            check_roundtrip(ctx, spec, cfg, False)
            check_roundtrip(ctx, spec, cfg, True)
            gen_short = spec["maze_ctor"][4:] if spec["maze_ctor"].startswith("gen_") else spec["maze_ctor"]
            exp = sanitize_fname(f"{spec['name']}-g{spec['grid_n']}-n{shorten_numerical_to_str(spec['n_mazes'])}-a_{gen_short}-h{h % 10**5}")
            ctx.ev(); ctx.tally("c18:fname")
            ctx.check(fn == exp, "C18/to_fname-differs", f"got {fn!r} expected {exp!r}", dict(spec=spec))
            ctx.check(fn.endswith(f"-h{h % 10**5}") and f"-g{spec['grid_n']}-" in fn and f"-a_{gen_short}-" in fn,
                      "C18/to_fname-parts-missing", f"{fn!r}", dict(spec=spec))
            if spec["maze_ctor_kwargs"] or spec["endpoint_kwargs"] or spec["applied_filters"]:
                ctx.nontrivial("cfg", json.dumps({k: v for k, v in spec.items() if k != "key"}, sort_keys=True))
    if specs:
        ctx.sample(dict(spec=specs[0], hash=local.get(specs[0]["key"], [None])[0], fname=local.get(specs[0]["key"], [None, None])[1]))
    # cross-process / cross-hash-seed stability
    for hs in [0, 1, 31337, int(ctx.rng.integers(2, 1 << 20))][: (3 if ctx.quick else 4)]:
        p = subprocess.run([PY, "-m", "vmon.c18_child"], input=json.dumps(specs), capture_output=True, text=True,
                           env=shard_env(dict(PYTHONHASHSEED=str(hs))), cwd=VERIF_ROOT, timeout=900)
        if p.returncode != 0:
            ctx.note(f"c18 child failed: {p.stderr[-500:]}"); ctx.tally("shard-crash")
            continue
        ctx.tally("c18:hashseeds")
        res = json.loads(p.stdout[p.stdout.index("{"):])
        for spec in specs:
            k = spec["key"]
            if k not in local:
                continue
            ctx.ev(); ctx.tally("c18:hash-cross-process")
            ctx.check(res.get(k) == local[k], "C18/hash-or-fname-differs-across-processes",
                      f"PYTHONHASHSEED={hs}: {res.get(k)} vs in-process {local[k]}", dict(spec=spec, hashseed=hs))
    # one-field-different pairs
    for t, spec in enumerate(specs[: (len(specs) if not ctx.quick else 120)]):
        rng = ctx.sub_rng("pair", spec["key"])
        for field in FIELDS:
            s2 = mutate(spec, field, rng)
            if s2 == spec:
                continue
            with ctx.guard("C18/pair", dict(spec=spec, field=field)):
                h1 = local[spec["key"]][0] if spec["key"] in local else int(make_cfg(spec).stable_hash_cfg())
                h2 = int(make_cfg(s2).stable_hash_cfg())
                ctx.ev(); ctx.tally(f"c18:pair:{field}")
                ctx.nontrivial("pair", spec["key"], field)
                ctx.check(h1 != h2, f"C18/hash-does-not-discriminate/{field}", f"both hash to {h1}; differing field {field}: {spec[field]!r} vs {s2[field]!r}",
                          dict(spec=spec, spec2=s2, field=field))
    # identity follows the content: (a) repeated calls agree, (b) after the fields the library itself updates in place
    # (n_mazes via update_self_config, applied_filters via the filter wrapper; also plain attribute assignment of the others:
    # the config is an ordinary mutable dataclass) hash and file name equal those of a freshly built config with that content,
    # (c) == / diff between a config and its reload, and between one-field-different configs
    for t, spec in enumerate(specs[: (len(specs) if not ctx.quick else 150)]):
        rng = ctx.sub_rng("inplace", spec["key"])
        field = FIELDS[t % len(FIELDS)]
        s2 = mutate(spec, field, rng)
        if s2 == spec:
            continue
        case = dict(spec=spec, field=field, spec2=s2)
        with ctx.guard("C18/in-place", case), warnings.catch_warnings():
            warnings.simplefilter("ignore")
            from maze_dataset import MazeDatasetConfig
            from maze_dataset.generation.generators import GENERATORS_MAP

            cfg = make_cfg(spec)
            h_a, f_a = int(cfg.stable_hash_cfg()), cfg.to_fname()
            ctx.check(int(cfg.stable_hash_cfg()) == h_a and cfg.to_fname() == f_a, "C18/hash-or-fname-not-repeatable", "", case)
            fresh = make_cfg(s2)
            container_edit = (t // len(FIELDS)) % 2 == 0  # edit the existing list/dict object instead of assigning a new one
            if field == "maze_ctor":
                cfg.maze_ctor = GENERATORS_MAP[s2["maze_ctor"]]
            elif field == "endpoint_kwargs":
                if container_edit:
                    cfg.endpoint_kwargs.clear(); cfg.endpoint_kwargs.update(fresh.endpoint_kwargs); ctx.tally("c18:in-place:container-edit")
                else:
                    cfg.endpoint_kwargs = fresh.endpoint_kwargs
            elif field == "applied_filters":
                # the way the filter wrapper records provenance: appended to the existing list
                if container_edit:
                    del cfg.applied_filters[:]; cfg.applied_filters.extend(fresh.applied_filters); ctx.tally("c18:in-place:container-edit")
                else:
                    cfg.applied_filters = list(fresh.applied_filters)
            elif field == "maze_ctor_kwargs":
                if container_edit:
                    cfg.maze_ctor_kwargs.clear(); cfg.maze_ctor_kwargs.update(copy.deepcopy(s2["maze_ctor_kwargs"])); ctx.tally("c18:in-place:container-edit")
                else:
                    cfg.maze_ctor_kwargs = copy.deepcopy(s2["maze_ctor_kwargs"])
            else:
                setattr(cfg, field, s2[field])
            ctx.ev(); ctx.tally("c18:in-place"); ctx.tally(f"c18:in-place:{field}")
            h_b, f_b = int(cfg.stable_hash_cfg()), cfg.to_fname()
            ctx.check(h_b == int(fresh.stable_hash_cfg()), f"C18/hash-stale-after-in-place-update/{field}",
                      f"after setting {field} in place the hash is {h_b}, a fresh config with the same content hashes to {int(fresh.stable_hash_cfg())} (before: {h_a})", case)
            ctx.check(f_b == fresh.to_fname(), f"C18/fname-stale-after-in-place-update/{field}", f"{f_b!r} vs fresh {fresh.to_fname()!r}", case)
            # equality and diff
            orig = make_cfg(spec)
            back = MazeDatasetConfig.load(json.loads(json.dumps(orig.serialize())))
            ctx.tally("c18:eq")
            try:
                ctx.check((back == orig) is True and (orig == back) is True and not (back != orig), "C18/reloaded-config-not-equal", f"diff={orig.diff(back)!r}"[:600], case)
                ctx.check(not orig.diff(back), "C18/reloaded-config-has-diff", f"diff={orig.diff(back)!r}"[:600], case)
            except Exception as e:  # noqa: BLE001
                ctx.violation(f"C18/config-eq-raises/{type(e).__name__}", repr(e)[:400], case)
            if field != "n_mazes":  # n_mazes is documented as excluded from comparison
                try:
                    ctx.check((fresh == orig) is False, f"C18/different-configs-compare-equal/{field}", f"{spec[field]!r} vs {s2[field]!r}", case)
                except Exception as e:  # noqa: BLE001
                    ctx.violation(f"C18/config-eq-raises/{type(e).__name__}", repr(e)[:400], case)
    # collection configs
    for t in range(0, min(len(specs) - 3, 60 if ctx.quick else 600), 3):
        members = specs[t: t + 1 + t % 3]
        case = dict(members=[m["key"] for m in members])
        with ctx.guard("C18/collection-config", case), warnings.catch_warnings():
            warnings.simplefilter("ignore")
            cc = MazeDatasetCollectionConfig(name=f"col {t}", maze_dataset_configs=[make_cfg(m) for m in members])
            back = MazeDatasetCollectionConfig.load(json.loads(json.dumps(cc.serialize())))
            ctx.ev(); ctx.tally("c18:collection-cfg")
            ctx.check(back.name == cc.name and len(back.maze_dataset_configs) == len(members), "C18/collection-config-roundtrip-differs", "", case)
            for m, a, b in zip(members, cc.maze_dataset_configs, back.maze_dataset_configs):
                ctx.check(b.maze_ctor is a.maze_ctor and typed(fields_of(a)["endpoint_kwargs"]) == typed(fields_of(b)["endpoint_kwargs"])
                          and {k: v for k, v in fields_of(a).items() if k not in ("endpoint_kwargs", "applied_filters")} ==
                          {k: v for k, v in fields_of(b).items() if k not in ("endpoint_kwargs", "applied_filters")},
                          "C18/collection-config-member-differs", f"{m['key']}", case)
            ctx.check(int(back.stable_hash_cfg()) == int(cc.stable_hash_cfg()), "C18/collection-hash-changes-over-roundtrip", "", case)
            total = sum(m["n_mazes"] for m in members)
            exp = sanitize_fname(f"collected-{cc.name}-n{shorten_numerical_to_str(total)}-h{int(cc.stable_hash_cfg()) % 10**5}")
            ctx.check(cc.to_fname() == exp, "C18/collection-to_fname-differs", f"{cc.to_fname()!r} vs {exp!r}", case)
