"""C16 — a dataset collection is exactly the concatenation of its member datasets."""

from __future__ import annotations

import itertools
import warnings

import numpy as np

from .. import lib, ref
from ..ref import Graph

LEVEL = "exploration"
TECHNIQUE = 'runtime monitoring: identity (is) comparison of collection[i] with the harness-built concatenation for every index, exhaustive over length vectors in {0,1,2}^k (k<=5) plus random and long members, shared names, repeated random-order access'
RULE = ("MazeDatasetCollection built from member datasets with prescribed lengths: exhaustively every length vector in {0,1,2}^k for "
        "k<=5 (363 vectors) plus random vectors (k<=8, lengths<=6, zeros at start/middle/end and repeated) plus members of 126..300 mazes (cumulative lengths past 127/255; thorough: 33000), collections of 128..300 (thorough 1000) members, member names unique or shared, member grid sizes equal "
        "and different; for every index 0<=i<len (and again in random order) the item must be *the very object* (is) at position i of the concatenation; len, "
        ".mazes, .dataset_lengths and .cfg.n_mazes must agree. "
        "non-trivial & distinct = distinct length vectors with >= 2 non-empty members and >= 1 empty member")
ASSUMPTIONS = ["member configs carry n_mazes == len(member) (what generation and update_self_config produce)"]
EXHAUSTIVE = {"quick": False, "thorough": False}
NSHARDS = {"quick": 16, "thorough": 16}
THRESHOLDS = {"quick": {"c16:collections": 800, "c16:library-made": 90, "c16:library-made:request-refused": 3, "c16:deep-copy-judged-after-original-changed": 10, "c16:derived-members:filters-of-one-base": 40, "c16:member-served-from-cache": 60, "c16:library-made:member-configs-with-filters": 50, "c16:index-checks": 3000, "c16:vec-exhaustive": 363, "c16:zero-first": 50,
                        "c16:zero-middle": 50, "c16:zero-last": 50, "c16:repeated-zeros": 50, "c16:mixed-grid": 100,
                        "c16:np-int-index": 300, "c16:long-members": 30, "c16:caller-list-mutated": 500, "c16:rebalanced-in-place": 300, "c16:config-object-reused": 500, "c16:many-members": 6, "c16:shared-member-names": 60, "c16:index-checks-second-pass": 2000}}
THRESHOLDS["thorough"] = dict(THRESHOLDS["quick"])
ANCHORS = ["maze_dataset.dataset.collected_dataset:MazeDatasetCollection.__getitem__",
           "maze_dataset.dataset.collected_dataset:MazeDatasetCollection.__len__",
           "maze_dataset.dataset.collected_dataset:MazeDatasetCollection.update_self_config"]
AMBIENT = dict(generators=False, solver=False, solved=False)

_POOL: dict = {}


def _maze(n, rng):
    """a fresh SolvedMaze object on an n x n grid (object identity matters, so never cached)"""
    key = n
    if key not in _POOL:
        cl = ref.random_spanning_tree(n, n, rng)
        g = Graph(cl)
        _POOL[key] = (cl, g.shortest_path((0, 0), (n - 1, n - 1)))
    cl, path = _POOL[key]
    return lib.solved(cl, path)


def check_vector(ctx, lengths, grids, rng, tag):
    from maze_dataset import MazeDataset, MazeDatasetConfig
    from maze_dataset.dataset.collected_dataset import MazeDatasetCollection, MazeDatasetCollectionConfig

    case = dict(lengths=list(lengths), grids=list(grids), tag=tag)
    with ctx.guard("C16/construct", case), warnings.catch_warnings():
        warnings.simplefilter("ignore")
        members = []
        shared = tag != "exh" and len(lengths) >= 2 and int(rng.integers(4)) == 0
        if shared:
            ctx.tally("c16:shared-member-names")
        for j, (L, n) in enumerate(zip(lengths, grids)):
            # member names need not be unique: every fourth random collection has members that share a name
            cfg = MazeDatasetConfig(name=("m" if shared and j % 3 != 2 else f"m{j}"), grid_n=n, n_mazes=L)
            members.append(MazeDataset(cfg, [_maze(n, rng) for _ in range(L)]))
        ccfg = MazeDatasetCollectionConfig(name="col", maze_dataset_configs=[m.cfg for m in members])
        callers_list = list(members)  # the list object handed to the constructor stays the caller's
        col = MazeDatasetCollection(ccfg, callers_list)
        ctx.tally("c16:collections")
        flat = [mz for m in members for mz in m.mazes]
        total = sum(lengths)
        ctx.ev()
        ctx.check(len(col) == total, "C16/len-wrong", f"len={len(col)} expected {total}", case)
        ctx.check(list(col.dataset_lengths) == list(lengths), "C16/dataset_lengths-wrong", f"{col.dataset_lengths}", case)
        mz = col.mazes
        ctx.check(len(mz) == total and all(a is b for a, b in zip(mz, flat)), "C16/mazes-not-concatenation", f"len(mazes)={len(mz)}", case)
        ctx.check(col.cfg.n_mazes == total, "C16/cfg-n_mazes-wrong", f"cfg.n_mazes={col.cfg.n_mazes} expected {total}", case)
        for i in range(total):
            idx = np.int64(i) if (i + len(lengths)) % 3 == 0 else i
            if isinstance(idx, np.integer):
                ctx.tally("c16:np-int-index")
            try:
                item = col[idx]
            except Exception as e:  # noqa: BLE001
                ctx.violation(f"C16/getitem-raises/{type(e).__name__}", f"index {i}: {type(e).__name__}: {str(e)[:200]}", dict(case, index=i))
                continue
            ctx.ev(); ctx.tally("c16:index-checks")
            if item is not flat[i]:
                where = next((k for k, f in enumerate(flat) if f is item), None)
                ctx.violation("C16/getitem-wrong-object", f"col[{i}] is the object at flat position {where}", dict(case, index=i))
        # second pass in random order (an index structure cached by the first pass must stay right)
        if total:
            for i in rng.permutation(total)[: min(total, 12)]:
                i = int(i)
                ctx.ev(); ctx.tally("c16:index-checks-second-pass")
                try:
                    item = col[i]
                except Exception as e:  # noqa: BLE001
                    ctx.violation(f"C16/getitem-raises/{type(e).__name__}", f"second pass, index {i}: {str(e)[:200]}", dict(case, index=i))
                    continue
                if item is not flat[i]:
                    ctx.violation("C16/getitem-wrong-object", f"second pass: col[{i}] is not the object at flat position {i}", dict(case, index=i))
        # the caller goes on using its own list (appends a member, reorders, clears): the collection built earlier is unaffected
        if len(members) >= 1 and tag != "many":
            extra = MazeDataset(MazeDatasetConfig(name="later", grid_n=2, n_mazes=1), [_maze(2, rng)])
            how = int(rng.integers(3))
            if how == 0:
                callers_list.append(extra)
            elif how == 1:
                callers_list.reverse(); callers_list.append(extra)
            else:
                callers_list.clear()
            ctx.tally("c16:caller-list-mutated")
            ok = len(col) == total and list(col.dataset_lengths) == list(lengths) and col.cfg.n_mazes == total and \
                all(col[i] is flat[i] for i in range(0, total, max(1, total // 7)))
            ctx.check(ok, "C16/collection-follows-callers-list-after-construction",
                      f"after the caller changed its own list: len={len(col)} (was {total}), dataset_lengths={list(col.dataset_lengths)[:8]} (was {list(lengths)[:8]})", case)
        # after update_self_config the counts must still agree
        col.update_self_config()
        ctx.check(col.cfg.n_mazes == total and len(col) == total, "C16/after-update_self_config-disagree",
                  f"cfg.n_mazes={col.cfg.n_mazes} len={len(col)}", case)
        # members re-balanced in place (a maze moved from the last non-empty member to the first one; the total stays): items,
        # length and per-member lengths follow the members as they are now (the flattened .mazes list is a cached snapshot in the
        # library and is not consulted here)
        nonempty = [k for k, m in enumerate(members) if len(m.mazes) > 0]
        if tag not in ("many", "big") and len(members) >= 2 and nonempty and nonempty[-1] != 0:
            moved = members[nonempty[-1]].mazes.pop()
            members[0].mazes.append(moved)
            flat2 = [mz for m in members for mz in m.mazes]
            lens2 = [len(m.mazes) for m in members]
            ctx.tally("c16:rebalanced-in-place")
            okr = len(col) == total and list(col.dataset_lengths) == lens2
            bad_i = None
            for i in range(total):
                try:
                    if col[i] is not flat2[i]:
                        bad_i = i; break
                except Exception:  # noqa: BLE001
                    bad_i = i; break
            ctx.check(okr and bad_i is None, "C16/getitem-wrong-after-members-rebalanced-in-place",
                      f"lengths {list(lengths)} -> {lens2}: len={len(col)} dataset_lengths={list(col.dataset_lengths)} first wrong index {bad_i}", case)
        # the same collection-config object re-used for a second collection after its member list changed
        if tag not in ("many", "big") and len(members) >= 1:
            extra = MazeDataset(MazeDatasetConfig(name="later2", grid_n=2, n_mazes=2), [_maze(2, rng), _maze(2, rng)])
            for m in members:
                m.update_self_config()
            ccfg.maze_dataset_configs = [m.cfg for m in members] + [extra.cfg]
            col2 = MazeDatasetCollection(ccfg, members + [extra])
            total2 = sum(len(m.mazes) for m in members) + 2
            ctx.tally("c16:config-object-reused")
            ctx.check(len(col2) == total2 and col2.cfg.n_mazes == total2 and sum(col2.dataset_lengths) == total2, "C16/cfg-n_mazes-wrong",
                      f"second collection built from the re-used config object: len={len(col2)} sum(dataset_lengths)={sum(col2.dataset_lengths)} cfg.n_mazes={col2.cfg.n_mazes}, expected {total2}", case)
    nz = [L > 0 for L in lengths]
    if sum(nz) >= 2 and not all(nz):
        ctx.nontrivial(tuple(lengths), tuple(grids))
    if lengths and lengths[0] == 0 and any(nz):
        ctx.tally("c16:zero-first")
    if lengths and lengths[-1] == 0 and any(nz):
        ctx.tally("c16:zero-last")
    if any(lengths[i] == 0 and any(nz[:i]) and any(nz[i + 1:]) for i in range(len(lengths))):
        ctx.tally("c16:zero-middle")
    if any(a == 0 and b == 0 for a, b in zip(lengths[:-1], lengths[1:])) and any(nz):
        ctx.tally("c16:repeated-zeros")
    if len(set(grids)) > 1:
        ctx.tally("c16:mixed-grid")


def _library_made(ctx, n):
    """collections the library itself puts together (generate / config-driven entry point), member configurations with and without
    recorded filters that would really remove mazes: whatever the members end up holding, every view of the collection agrees"""
    from maze_dataset import MazeDatasetConfig
    from maze_dataset.dataset.collected_dataset import MazeDatasetCollection, MazeDatasetCollectionConfig
    from maze_dataset.generation.generators import GENERATORS_MAP

    FILTERS = [[], [], [dict(name="path_length", args=(), kwargs=dict(min_length=4))], [dict(name="truncate_count", args=(2,), kwargs={})],
               [dict(name="start_end_distance", args=(), kwargs=dict(min_distance=3)), dict(name="truncate_count", args=(), kwargs=dict(max_count=3))]]
    for j in range(n):
        if not ctx.mine(j):
            continue
        rng = ctx.sub_rng("libmade", j)
        k = int(rng.integers(1, 5))
        members = []
        for t in range(k):
            gen = ["gen_dfs", "gen_dfs_percolation", "gen_prim", "gen_dfs", "gen_prim", "gen_dfs_percolation", "gen_dfs", "gen_percolation"][int(rng.integers(8))]
            # (sparse percolation on 3x3: now and then a maze has no pair of endpoints, and the library refuses the whole request)
            members.append(MazeDatasetConfig(name=f"lm{t}", grid_n=3 if gen == "gen_percolation" else int(rng.integers(3, 6)), n_mazes=int(rng.integers(1, 9)), maze_ctor=GENERATORS_MAP[gen],
                                             maze_ctor_kwargs=dict(p=0.3) if gen == "gen_dfs_percolation" else (dict(p=[0.3, 0.45, 0.6][t % 3]) if gen == "gen_percolation" else {}), seed=int(rng.integers(1 << 20)),
                                             applied_filters=[dict(f) for f in FILTERS[int(rng.integers(len(FILTERS)))]]))
        how = ["generate", "from_config"][j % 2]
        case = dict(kind="library-made", how=how, members=[dict(grid_n=m.grid_n, n_mazes=m.n_mazes, filters=[f["name"] for f in m.applied_filters]) for m in members])
        with ctx.guard("C16/library-made", case):
            with warnings.catch_warnings():
                warnings.simplefilter("ignore")
                ccfg = MazeDatasetCollectionConfig(name=f"libmade{j}", maze_dataset_configs=members)
                try:
                    col = MazeDatasetCollection.generate(ccfg) if how == "generate" else \
                        MazeDatasetCollection.from_config(ccfg, load_local=False, save_local=False, do_download=False)
                except ValueError:
                    ctx.tally("c16:library-made:request-refused")
                    continue
            ctx.ev(); ctx.tally("c16:library-made"); ctx.tally(f"c16:library-made:{how}")
            if any(m.applied_filters for m in members):
                ctx.tally("c16:library-made:member-configs-with-filters")
            concat = [m for d in col.maze_datasets for m in d.mazes]
            lens = [len(d) for d in col.maze_datasets]
            total = len(concat)
            ok = (len(col) == total and len(col.mazes) == total and list(int(x) for x in col.dataset_lengths) == lens and int(col.cfg.n_mazes) == total)
            ctx.check(ok, "C16/library-made-views-disagree",
                      lambda: f"{how}: members hold {lens} (sum {total}); len()={len(col)}, len(.mazes)={len(col.mazes)}, dataset_lengths={list(col.dataset_lengths)}, cfg.n_mazes={col.cfg.n_mazes}", case)
            ctx.check(all(col[i] is concat[i] for i in range(min(total, len(col)))), "C16/item-not-the-member-maze", f"{how}", case)
            # the member configurations the collection reports describe the members it holds
            rep = [int(c.n_mazes) for c in col.cfg.maze_dataset_configs]
            ctx.check(rep == lens, "C16/library-made-member-config-count-wrong", lambda: f"{how}: cfg.maze_dataset_configs report {rep}, members hold {lens}", case)


def _derived_members(ctx, n):
    """collections whose members are what a user typically has at hand: several datasets derived from ONE base dataset by filters
    (prefixes of growing size, an emptied one, the base itself), or datasets obtained through the config-driven entry point with its
    cache (first request generates, the second one is served from the file); the collection config is built from the members' configs"""
    import shutil
    import tempfile

    from maze_dataset import MazeDataset, MazeDatasetConfig
    from maze_dataset.dataset.collected_dataset import MazeDatasetCollection, MazeDatasetCollectionConfig

    for j in range(n):
        if not ctx.mine(j):
            continue
        rng = ctx.sub_rng("derived", j)
        how = ["filters-of-one-base", "from_config-cache-hits"][j % 2]
        case = dict(kind="derived-members", how=how, j=j)
        tmp = None
        with ctx.guard("C16/derived-members", case):
            with warnings.catch_warnings():
                warnings.simplefilter("ignore")
                if how == "filters-of-one-base":
                    base = MazeDataset.generate(MazeDatasetConfig(name="base", grid_n=int(rng.integers(3, 6)), n_mazes=int(rng.integers(6, 13)), seed=int(rng.integers(1 << 20))))
                    pool = [lambda: base.filter_by.truncate_count(int(rng.integers(1, len(base)))), lambda: base.filter_by.truncate_count(0), lambda: base,
                            lambda: base.filter_by.cut_percentile_shortest(float(rng.integers(20, 70))), lambda: base.filter_by.path_length(min_length=int(rng.integers(2, 6))),
                            lambda: base.filter_by.truncate_count(2).filter_by.truncate_count(1), lambda: base.filter_by.start_end_distance(min_distance=2)]
                    members = [pool[int(rng.integers(len(pool)))]() for _ in range(int(rng.integers(2, 6)))]
                else:
                    tmp = tempfile.mkdtemp(prefix="c16-cache-", dir=ctx.work)
                    members = []
                    for t in range(int(rng.integers(2, 5))):
                        flt = [[], [dict(name="path_length", args=(), kwargs=dict(min_length=4))], [dict(name="truncate_count", args=(2,), kwargs={})],
                               [dict(name="start_end_distance", args=(), kwargs=dict(min_distance=3))]][int(rng.integers(4))]
                        mk = lambda: MazeDatasetConfig(name=f"d{t}", grid_n=int(3 + t % 3), n_mazes=int(5 + t), seed=77 + t, applied_filters=[dict(f) for f in flt])  # noqa: E731
                        try:
                            MazeDataset.from_config(mk(), local_base_path=tmp, do_download=False)
                            members.append(MazeDataset.from_config(mk(), local_base_path=tmp, do_download=False))
                            ctx.tally("c16:member-served-from-cache")
                        except Exception as e:  # noqa: BLE001
                            ctx.tally(f"c16:cached-request-failed:{type(e).__name__}(not judged here)")
                if len(members) < 1:
                    continue
                col = MazeDatasetCollection(MazeDatasetCollectionConfig(name=f"derived{j}", maze_dataset_configs=[m.cfg for m in members]), members)
            ctx.ev(); ctx.tally("c16:derived-members"); ctx.tally(f"c16:derived-members:{how}")
            # a deep copy of the collection, taken before the ORIGINAL is changed (a member replaced by a filtered version of itself,
            # its config put in the slot, counts brought up to date): the untouched copy must still agree with itself
            if j % 3 == 0 and len(members) >= 1 and len(members[0]) >= 2:
                import copy as _copy
                try:
                    with warnings.catch_warnings():
                        warnings.simplefilter("ignore")
                        cp = _copy.deepcopy(col)
                        lens_cp = [len(m) for m in cp.maze_datasets]
                        smaller = col.maze_datasets[0].filter_by.truncate_count(1)
                        col.maze_datasets[0] = smaller
                        col.cfg.maze_dataset_configs[0] = smaller.cfg
                        col.update_self_config()
                        for c_ in col.cfg.maze_dataset_configs[1:]:
                            c_.n_mazes = int(c_.n_mazes)   # (touch)
                    ctx.tally("c16:deep-copy-judged-after-original-changed")
                    ok_cp = (len(cp) == sum(lens_cp) and [int(x) for x in cp.dataset_lengths] == lens_cp and int(cp.cfg.n_mazes) == sum(lens_cp)
                             and [int(c_.n_mazes) for c_ in cp.cfg.maze_dataset_configs] == lens_cp)
                    ctx.check(ok_cp, "C16/deep-copy-disagrees-after-original-changed",
                              lambda: f"copy's members hold {lens_cp}; len()={len(cp)}, dataset_lengths={list(cp.dataset_lengths)}, cfg.n_mazes={cp.cfg.n_mazes}, member cfg counts {[int(c_.n_mazes) for c_ in cp.cfg.maze_dataset_configs]}", case)
                    members = list(col.maze_datasets)
                except TypeError:
                    ctx.tally("c16:deep-copy-refused(not judged)")
            lens = [len(m) for m in members]
            total = sum(lens)
            concat = [mz for m in members for mz in m.mazes]
            ok = (len(col) == total and len(col.mazes) == total and [int(x) for x in col.dataset_lengths] == lens and int(col.cfg.n_mazes) == total)
            ctx.check(ok, "C16/derived-members-views-disagree",
                      lambda: f"{how}: members hold {lens} (sum {total}); len()={len(col)}, len(.mazes)={len(col.mazes)}, dataset_lengths={list(col.dataset_lengths)}, cfg.n_mazes={col.cfg.n_mazes}, "
                              f"member cfg counts {[int(c.n_mazes) for c in col.cfg.maze_dataset_configs]}", case)
            ctx.check(all(col[i] is concat[i] for i in range(min(total, len(col)))), "C16/item-not-the-member-maze", f"{how}", case)
        if tmp:
            shutil.rmtree(tmp, ignore_errors=True)


def run(ctx):
    _library_made(ctx, 160 if ctx.quick else 1600)
    _derived_members(ctx, 120 if ctx.quick else 1200)
    k = 0
    for klen in range(1, 6):
        for vec in itertools.product((0, 1, 2), repeat=klen):
            k += 1
            if not ctx.mine(k):
                continue
            rng = ctx.sub_rng("exh", k)
            grids = [3] * klen if k % 2 else [int(rng.integers(2, 6)) for _ in range(klen)]
            check_vector(ctx, vec, grids, rng, "exh")
            ctx.tally("c16:vec-exhaustive")
            if k % 97 == 0:
                ctx.sample(dict(lengths=vec, grids=grids))
    # long members: cumulative lengths beyond 127 / 255 / 32767 (narrow integer types), mazes shared by reference is not allowed -> fresh objects
    BIG = [0, 1, 126, 127, 128, 129, 255, 256, 257, 300]
    nbig = 40 if ctx.quick else 600
    for j in range(nbig):
        if not ctx.mine(j):
            continue
        rng = ctx.sub_rng("big", j)
        klen = int(rng.integers(2, 5))
        vec = [BIG[int(rng.integers(len(BIG)))] for _ in range(klen)]
        if j % 10 == 0 and not ctx.quick:
            vec[int(rng.integers(klen))] = 33000
        check_vector(ctx, vec, [2] * klen, rng, "big")
        ctx.tally("c16:long-members")
    # many members (member indices past 127 / 255)
    for j, kmem in enumerate([129, 130, 200, 260, 300, 128] if ctx.quick else [129, 130, 200, 260, 300, 128, 257, 500, 1000]):
        if not ctx.mine(j):
            continue
        rng = ctx.sub_rng("many", j)
        vec = [int(rng.integers(0, 3)) for _ in range(kmem)]
        vec[-1] = max(vec[-1], 1)
        check_vector(ctx, vec, [2] * kmem if j % 2 else [int(rng.integers(2, 4)) for _ in range(kmem)], rng, "many")
        ctx.tally("c16:many-members")
    n = 600 if ctx.quick else 20000
    for j in range(n):
        if not ctx.mine(j):
            continue
        rng = ctx.sub_rng("rnd", j)
        klen = int(rng.integers(1, 9))
        vec = [int(rng.integers(0, 7)) if rng.random() < 0.65 else 0 for _ in range(klen)]
        grids = [int(rng.integers(2, 7)) for _ in range(klen)] if j % 2 else [4] * klen
        check_vector(ctx, vec, grids, rng, "rnd")
        if j < 3:
            ctx.sample(dict(lengths=vec, grids=grids))
