"""C12 — generation metadata tells the truth about reachability."""

from __future__ import annotations

import numpy as np

from .. import genwork, lib, oracles
from ..core import call_watchdog
from ..ref import Graph

LEVEL = "exploration"
TECHNIQUE = "runtime monitoring: generation_meta monitor on every generator return (sys.monitoring, also inside the repository's own tests) judged by component/degree reference model; random-path draws checked as walks along connections"
RULE = ("every generator over the documented kwargs grid (accessible_cells as count/fraction, max_tree_depth, do_forks, "
        "randomized_stack, start_coord, p) on shapes 1x1..12x12 incl. oblong; generation_meta judged against components/degrees of an "
        "adjacency-set model (visited == component of start; flag => connected, dfs flag iff connected; unflagged => visited recorded; "
        "constrained dfs = tree over visited, |visited| <= max(1,n), exact when unconstrained, no fork when do_forks=False); then "
        "generate_random_path() - plain and with endpoint options - must return walks along connections (ValueError = documented rejection) and "
        "must leave the recorded metadata as truthful as before (re-judged after the draws). "
        "non-trivial & distinct = distinct (generator, shape, kwargs, connection_list) whose maze is not flagged fully connected, "
        "or percolation mazes whose start component is a strict subset")
ASSUMPTIONS = ["grid shapes passed as numpy arrays", "fractions are floor/ceil-tolerant (docstring does not fix the rounding)"]
NSHARDS = {"quick": 16, "thorough": 16}
THRESHOLDS = {
    "quick": {"repotests:ambient:gen:gen_dfs?repotests:runs": 50, "c12:not-flagged": 500, "c12:perc-strict-subset": 200, "c12:no-forks-nontrivial": 100, "c12:random-path-ok": 1000,
              "c12:exact-count-checked": 300, "c12:gen_dfs": 500, "c12:gen_wilson": 100, "c12:gen_percolation": 300,
              "c12:gen_dfs_percolation": 300, "c12:get_connected_component": 500, "c12:threaded-generations": 200, "c12:metadata-rejudged-after-draws": 1000, "c12:random-path-with-options": 3000, "c12:callers-start-array-changed-afterwards": 100, "c12:reloaded-mazes": 300, "c12:collect-failed-half-way": 30, "c12:component-answer-overwritten-by-caller": 1000, "c12:option-draws-judged-against-recorded-component": 2000, "c12:refused-option-draws-judged": 50, "hits:gen_dfs": 1},
}
THRESHOLDS["thorough"] = dict(THRESHOLDS["quick"])
ANCHORS = [
    "maze_dataset.generation.generators:LatticeMazeGenerators.gen_dfs",
    "maze_dataset.generation.generators:LatticeMazeGenerators.gen_percolation",
    "maze_dataset.generation.generators:LatticeMazeGenerators.gen_dfs_percolation",
    "maze_dataset.maze.lattice_maze:LatticeMaze.gen_connected_component_from",
    "maze_dataset.maze.lattice_maze:LatticeMaze.get_connected_component",
    "maze_dataset.maze.lattice_maze:LatticeMaze.generate_random_path",
]
GENS = ("gen_dfs", "gen_prim", "gen_wilson", "gen_percolation", "gen_dfs_percolation")


def run(ctx):
    if ctx.shard == ctx.nshards - 1:
        from ..repotests import run_under_monitors

        run_under_monitors(ctx)
    from maze_dataset.generation.generators import GENERATORS_MAP

    _threaded(ctx, 2 if ctx.quick else 12)
    n_cases = 9000 if ctx.quick else 200000
    for i in range(n_cases):
        if not ctx.mine(i):
            continue
        rng = ctx.sub_rng("case", i)
        gen = GENS[i % 5] if i % 11 else "gen_dfs"
        if rng.random() < 0.25:
            R, C = int(rng.integers(1, 13)), int(rng.integers(1, 13))
        else:
            R = C = int(rng.integers(1, 13))
        if gen == "gen_wilson" and R * C > 64 and ctx.quick:
            R = C = int(rng.integers(2, 8))
        kw = genwork.kwargs_for(gen, R, C, rng)
        if gen in ("gen_dfs", "gen_prim") and i % 7 == 0:
            kw["do_forks"] = False
            kw.pop("max_tree_depth", None)
        cseed = ctx.case_seed("rng", i)
        case = dict(gen=gen, shape=(R, C), kwargs=kw, rng_seed=cseed)
        genwork.seed_library_rngs(cseed)
        with ctx.guard(f"C12/{gen}/call", case), call_watchdog(ctx, 120, f"C12/{gen} {R}x{C}"):
            dts = [np.int64, np.int32, np.int8, np.uint8, np.int16]
            dt = dts[i % len(dts)] if gen != "gen_wilson" else np.int64
            case["shape_dtype"] = np.dtype(dt).name
            kw_call, sc_arr = kw, None
            if kw.get("start_coord") is not None and i % 3 == 0:
                # the start handed over as the caller's own array (which the caller goes on using afterwards, see below)
                sc_arr = np.array(kw["start_coord"])
                kw_call = dict(kw, start_coord=sc_arr)
                case["start_coord_as_callers_array"] = True
            maze = GENERATORS_MAP[gen](np.array([R, C], dtype=dt), **kw_call)
            # (if the watchdog fires the block is left here and the case is reported as inconclusive)
            ctx.ev()
            g = Graph(maze.connection_list)
            oracles.check_c12(ctx, gen, (R, C), kw, maze, g, case)
            meta = maze.generation_meta or {}
            flagged = bool(meta.get("fully_connected", False))
            if not flagged:
                ctx.nontrivial(gen, R, C, sorted(kw.items(), key=repr), maze.connection_list)
            if gen in ("gen_percolation", "gen_dfs_percolation") and meta.get("start_coord") is not None:
                sc = tuple(int(x) for x in meta["start_coord"])
                if g.in_grid(sc) and len(g.component_of(sc)) < R * C:
                    ctx.tally("c12:perc-strict-subset")
            if i % 1013 == 0:
                ctx.sample(dict(case=case, meta={k: (v if not hasattr(v, "__len__") or isinstance(v, str) else f"<{len(v)} cells>")
                                                 for k, v in meta.items()}))
            _random_paths(ctx, maze, g, case, 6 if ctx.quick else 10)
            if sc_arr is not None:
                # the caller moves on: its coordinate array is advanced / re-used in place; what the maze records may not move with it
                if i % 2:
                    sc_arr += 1
                else:
                    sc_arr[:] = [R + 5, -7]
                ctx.tally("c12:callers-start-array-changed-afterwards")
                oracles.check_c12(ctx, gen, (R, C), kw, maze, g, dict(case, after="the caller changed its own start_coord array in place"))
    _reloaded(ctx, 60 if ctx.quick else 600)
    _failed_collect(ctx, 48 if ctx.quick else 480)


def _reloaded(ctx, n):
    """mazes as they come back from a dataset round trip: whatever generation metadata a maze object carries afterwards still has to
    be true of that maze (a flag 'fully connected' only on a connected maze, recorded visited cells = the cells reachable from the
    recorded start); carrying none is fine"""
    import warnings

    from maze_dataset import MazeDataset, MazeDatasetConfig
    from maze_dataset.generation.generators import GENERATORS_MAP

    specs = [("gen_dfs", dict(accessible_cells=6)), ("gen_dfs", dict(accessible_cells=0.3)), ("gen_dfs_percolation", dict(p=0.2, accessible_cells=8)),
             ("gen_percolation", dict(p=0.3)), ("gen_dfs", dict(max_tree_depth=3)), ("gen_dfs", {}), ("gen_prim", dict(accessible_cells=5)),
             ("gen_dfs_percolation", dict(p=0.1))]
    for j in range(n):
        if not ctx.mine(j):
            continue
        gen, kw = specs[j % len(specs)]
        fmt = ["_serialize_minimal", "_serialize_minimal_soln_cat", "_serialize_full"][(j // len(specs)) % 3]
        case0 = dict(kind="reloaded", gen=gen, kwargs=kw, format=fmt, j=j)
        with warnings.catch_warnings():
            warnings.simplefilter("ignore")
            try:
                cfg = MazeDatasetConfig(name=f"c12r{j}", grid_n=5, n_mazes=[4, 7, 100][j % 3] if fmt != "_serialize_full" else 4, maze_ctor=GENERATORS_MAP[gen],
                                        maze_ctor_kwargs=dict(kw), seed=1000 + j)
                ds = MazeDataset.generate(cfg)
                back = MazeDataset.load(getattr(ds, fmt)())
            except Exception as e:  # noqa: BLE001
                ctx.tally(f"c12:reload-failed:{type(e).__name__}(not judged here)")
                continue
        for t, m in enumerate(back.mazes):
            meta = m.generation_meta
            ctx.ev(); ctx.tally("c12:reloaded-mazes")
            if not meta:
                ctx.tally("c12:reloaded-mazes-without-metadata")
                continue
            ctx.tally("c12:reloaded-mazes-with-metadata")
            g = Graph(m.connection_list)
            case = dict(case0, index=t, cl=np.asarray(m.connection_list))
            if meta.get("fully_connected"):
                ctx.check(g.connected(), "C12/flagged-fully-connected-but-is-not",
                          lambda: f"after a {fmt} round trip the maze is flagged fully connected; component sizes: {sorted(__import__('collections').Counter(g.components().values()).values())[:6]}", case)
            vc = oracles._as_cellset(meta.get("visited_cells"))
            if vc is not None and meta.get("start_coord") is not None:
                sc = tuple(int(x) for x in meta["start_coord"])
                if g.in_grid(sc):
                    ctx.check(vc == set(g.component_of(sc)), "C12/visited-cells-not-the-component-of-start", f"after a {fmt} round trip: |visited|={len(vc)} |component|={len(g.component_of(sc))}", case)
            # endpoints drawn for it are mutually reachable
            if g.R >= 2 and g.C >= 2:
                for _ in range(3):
                    try:
                        path = m.generate_random_path()
                    except ValueError:
                        ctx.tally("c12:reloaded-random-path-rejected(not judged)")
                        break
                    prob = g.path_problems(path)
                    ctx.check(prob is None, "C12/random-path-uses-non-edge", lambda: f"reloaded maze: {prob}", case)


def _failed_collect(ctx, n):
    """a dataset on which collecting the generation metadata FAILS half-way (one maze further down carries none, or a maze carries a
    user annotation the collector cannot count) and the caller carries on: whatever metadata the mazes carry afterwards must still be
    true of each of them"""
    import warnings

    from maze_dataset import MazeDataset, MazeDatasetConfig
    from maze_dataset.generation.generators import GENERATORS_MAP

    specs = [("gen_dfs", dict(accessible_cells=7)), ("gen_percolation", dict(p=0.35)), ("gen_dfs_percolation", dict(p=0.15, accessible_cells=9)), ("gen_dfs", dict(max_tree_depth=4))]
    for j in range(n):
        if not ctx.mine(j):
            continue
        gen, kw = specs[j % len(specs)]
        case0 = dict(kind="failed-collect", gen=gen, kwargs=kw, j=j)
        with warnings.catch_warnings():
            warnings.simplefilter("ignore")
            try:
                ds = MazeDataset.generate(MazeDatasetConfig(name=f"c12f{j}", grid_n=5, n_mazes=6, maze_ctor=GENERATORS_MAP[gen], maze_ctor_kwargs=dict(kw), seed=2000 + j))
            except Exception:  # noqa: BLE001
                continue
            k_bad = 2 + j % 4
            if j % 2:
                ds.mazes[k_bad] = lib.solved(np.asarray(ds.mazes[k_bad].connection_list), [tuple(int(x) for x in c) for c in ds.mazes[k_bad].solution])   # no metadata at all
            else:
                ds.mazes[k_bad].generation_meta["user_note"] = {"reviewed": True}   # an annotation that cannot be counted
            try:
                ds.filter_by.collect_generation_meta()
                ctx.tally("c12:collect-succeeded(not the case aimed at)")
            except Exception:  # noqa: BLE001
                ctx.tally("c12:collect-failed-half-way")
        for t, m in enumerate(ds.mazes):
            meta = m.generation_meta
            ctx.ev(); ctx.tally("c12:mazes-judged-after-failed-collect")
            if not meta:
                continue
            g = Graph(m.connection_list)
            case = dict(case0, index=t, cl=np.asarray(m.connection_list))
            if meta.get("fully_connected"):
                ctx.check(g.connected(), "C12/flagged-fully-connected-but-is-not", "after a failed collect_generation_meta", case)
            vc = oracles._as_cellset(meta.get("visited_cells"))
            if vc is not None and meta.get("start_coord") is not None:
                sc = tuple(int(x) for x in meta["start_coord"])
                if g.in_grid(sc):
                    ctx.check(vc == set(g.component_of(sc)), "C12/visited-cells-not-the-component-of-start",
                              f"after a failed collect_generation_meta: |visited|={len(vc)} |component of recorded start|={len(g.component_of(sc))}", case)


def _threaded(ctx, n_rounds):
    """several threads inside the generators at once (a torch DataLoader with thread workers, a web service): every returned maze
    and its metadata are judged exactly like the single-threaded ones"""
    import sys
    from concurrent.futures import ThreadPoolExecutor

    from maze_dataset.generation.generators import GENERATORS_MAP

    old = sys.getswitchinterval()
    sys.setswitchinterval(1e-5)
    try:
        for rnd in range(n_rounds):
            rng = ctx.sub_rng("threads", ctx.shard, rnd)
            R = C = int([16, 20, 24][rnd % 3])
            jobs = []
            for t in range(12):
                gen = ["gen_dfs", "gen_dfs", "gen_prim", "gen_dfs_percolation", "gen_percolation", "gen_dfs"][t % 6]
                kw = [{}, dict(accessible_cells=R * C // 2), {}, dict(p=0.1), dict(p=0.5), dict(do_forks=False)][t % 6]
                jobs.append((gen, kw))
            with ThreadPoolExecutor(max_workers=4) as ex:
                outs = list(ex.map(lambda j: GENERATORS_MAP[j[0]](np.array([R, C]), **j[1]), jobs))
            for (gen, kw), maze in zip(jobs, outs):
                case = dict(gen=gen, shape=(R, C), kwargs=kw, threaded=True)
                ctx.ev(); ctx.tally("c12:threaded-generations")
                g = Graph(maze.connection_list)
                oracles.check_c01(ctx, gen, (R, C), kw, maze, case, owner="C01")
                oracles.check_c12(ctx, gen, (R, C), kw, maze, g, case)
    finally:
        sys.setswitchinterval(old)


def _random_paths(ctx, maze, g, case, n):
    R, C = g.R, g.C
    if R < 2 or C < 2:
        return  # documented assertion: no path in a single-row/column maze
    # get_connected_component must be a set of mutually reachable cells when metadata is present
    try:
        cc = maze.get_connected_component()
        cells = {tuple(int(x) for x in c) for c in cc}
        ctx.tally("c12:get_connected_component")
        if cells:
            comp = g.component_of(next(iter(cells)))
            ctx.check(cells <= comp, "C12/connected-component-not-mutually-reachable",
                      lambda: f"|cells|={len(cells)} |component|={len(comp)} outside={sorted(cells - comp)[:5]}", case)
    except ValueError:
        ctx.tally("rejected:C12/get_connected_component:ValueError")
    for t in range(n):
        try:
            path = maze.generate_random_path()
        except ValueError:
            ctx.tally("c12:random-path-rejected")
            # documented only for a component of fewer than two cells
            meta = maze.generation_meta or {}
            vc = meta.get("visited_cells")
            ncomp = (R * C) if meta.get("fully_connected") or vc is None else len(vc)
            ctx.check(ncomp < 2, "C12/random-path-rejected-with-two-or-more-cells", f"component size {ncomp}", case)
            return
        except Exception as e:  # noqa: BLE001
            ctx.violation(f"C12/random-path/exception/{type(e).__name__}", repr(e)[:500], case)
            return
        ctx.ev()
        prob = g.path_problems(path)
        if ctx.check(prob is None, "C12/random-path-uses-non-edge", lambda: f"{prob}; path={np.asarray(path).tolist()}", case):
            ctx.tally("c12:random-path-ok")
    # endpoint draws with options, then the metadata is judged again: drawing endpoints may not change what the maze records
    gen = case.get("gen"); kw = case.get("kwargs") or {}
    meta0 = maze.generation_meta or {}
    vis0 = oracles._as_cellset(meta0.get("visited_cells"))
    comp_cells = sorted(g.component_of(tuple(int(x) for x in meta0["start_coord"]))) if meta0.get("start_coord") is not None and g.in_grid(tuple(int(x) for x in meta0["start_coord"])) else []
    opt_sets = [dict(endpoints_not_equal=True), dict(endpoints_not_equal=True, deadend_start=True), dict(deadend_end=True),
                dict(endpoints_not_equal=True, allowed_start=comp_cells[:3] or None), dict(allowed_end=comp_cells[-2:] or None, endpoints_not_equal=True)]
    # the component the metadata records, when the metadata is truthful about it (judged elsewhere): endpoints with options are
    # drawn inside it, and a draw is refused only when the options leave no admissible (start, end) the sampler could have picked
    rec = None
    if meta0.get("fully_connected") and g.connected():
        rec = set(g.component_of((0, 0)))
    elif not meta0.get("fully_connected") and vis0 and comp_cells and vis0 == set(comp_cells):
        rec = set(comp_cells)
    opt_sets += [dict(deadend_start=True, deadend_end=True), dict(deadend_start=True, deadend_end=True, endpoints_not_equal=True)]
    for o in opt_sets:
        o = {k: v for k, v in o.items() if v is not None}
        S = E = None
        if rec is not None:
            S = set(rec) if "allowed_start" not in o else {tuple(int(x) for x in c) for c in o["allowed_start"]} & rec
            E = set(rec) if "allowed_end" not in o else {tuple(int(x) for x in c) for c in o["allowed_end"]} & rec
            if o.get("deadend_start"):
                S = {c for c in S if g.degree(c) == 1}
            if o.get("deadend_end"):
                E = {c for c in E if g.degree(c) == 1}
        for _rep in range(3):
            try:
                path = maze.generate_random_path(**o)
                ctx.tally("c12:random-path-with-options")
                prob = g.path_problems(path)
                ctx.check(prob is None, "C12/random-path-uses-non-edge", lambda: f"{prob}; options {o}", case)
                if rec is not None and prob is None and len(path):
                    ends = (tuple(int(x) for x in path[0]), tuple(int(x) for x in path[-1]))
                    ctx.tally("c12:option-draws-judged-against-recorded-component")
                    ctx.check(ends[0] in rec and ends[1] in rec, "C12/endpoints-with-options-outside-recorded-component",
                              lambda: f"options {o}: endpoints {ends}, recorded component of {len(rec)} cells does not contain both", case)
            except ValueError as e:
                ctx.tally("rejected:C12/random-path-with-options:ValueError")
                if S is not None:
                    # the sampler picks the start first; with endpoints_not_equal it may then find no end left
                    may_refuse = (not S) or (not E) or (o.get("endpoints_not_equal") and len(E) == 1 and E <= S)
                    ctx.tally("c12:refused-option-draws-judged")
                    ctx.check(bool(may_refuse), "C12/endpoints-with-options-refused-though-reachable-choices-exist",
                              lambda: f"options {o}: {len(S)} admissible starts, {len(E)} admissible ends inside the recorded component, yet {e!r}"[:400], case)
            except Exception as e:  # noqa: BLE001
                ctx.violation(f"C12/random-path/exception/{type(e).__name__}", f"options {o}: {e!r}"[:500], case)
                break
    # what get_connected_component handed back belongs to the caller: rescaled / sorted in place before the metadata is judged again
    try:
        cc_own = maze.get_connected_component()
        if isinstance(cc_own, np.ndarray) and cc_own.size and cc_own.flags.writeable:
            cc_own *= 2
            cc_own += 1
            ctx.tally("c12:component-answer-overwritten-by-caller")
    except Exception:  # noqa: BLE001
        pass
    vis1 = oracles._as_cellset((maze.generation_meta or {}).get("visited_cells"))
    ctx.tally("c12:metadata-rejudged-after-draws")
    ctx.check(vis0 == vis1, "C12/endpoint-draws-changed-recorded-visited-cells",
              lambda: f"|visited| before {None if vis0 is None else len(vis0)} after {None if vis1 is None else len(vis1)}; lost {sorted((vis0 or set()) - (vis1 or set()))[:6]}", case)
    if gen is not None:
        oracles.check_c12(ctx, gen, (R, C), kw, maze, g, dict(case, after="endpoint draws with options"))
