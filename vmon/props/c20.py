"""C20 — maze plots draw the maze that was given."""

from __future__ import annotations

import warnings

import numpy as np

from .. import lib, ref
from ..ref import Graph

LEVEL = "exploration"
TECHNIQUE = "runtime monitoring: matplotlib artists read back after plot() (image array and the colours it is painted with, Line2D, Quiver) and compared with a block/strip/cell-centre reference model; replots of the same maze in different value modes; ASCII export compared with the maze's own drawing and the pixel oracle"
RULE = ("MazePlot(maze)[.add_node_values][.add_true_path][.add_predicted_path].plot() for all three maze kinds (trees and cyclic, grid "
        "2..8 and oblong), unit_length in {3,4,5,9,14,19,31}, paths given as lists, int64 and int8 arrays (int8 also as the stored solution), with/without node values (random, negative, constant, maps containing exactly -1.0), 0-3 predicted paths "
        "(valid, reversed, arbitrary cell lists): ax.images[0].get_array() must have size (r*ul+1)x(c*ul+1), every cell block must be "
        "uniform and non-wall (carry its value when values are supplied), the strip of every lattice edge must be passage iff the "
        "cells are connected (wall = -1 without values, masked/NaN with values); the true-path Line2D and predicted-path Quiver "
        "geometry must run through the centres of their cells' blocks in order (centres read off the image's extent; end markers are not judged); to_ascii() "
        "must equal the maze's own as_ascii() (for a targeted maze, whose constructor solves it, after mapping X to space). Solved mazes also "
        "carry non-shortest stored solutions (detours). Every third maze is plotted again three times (same object or an equal fresh "
        "one) with the other values mode, the original one, and plain, and each image is judged against its own arguments. "
        "non-trivial & distinct = distinct (kind, connection structure, unit length, values?, paths) plots")
ASSUMPTIONS = ["the wall colour is opaque black in both modes (gray map at -1 without values; NaN with the bad colour set to black with values); the harness only uses the colour maps Blues and viridis, neither of which contains black", "corner pixels and the outer frame are unspecified and not judged", "matplotlib Agg backend; artists are read back, nothing is rendered to pixels",
               "predicted paths have >= 2 cells (a quiver needs one arrow)"]
NSHARDS = {"quick": 16, "thorough": 16}
THRESHOLDS = {"quick": {"c20:plots": 1200, "c20:kind:LatticeMaze": 200, "c20:kind:TargetedLatticeMaze": 200, "c20:kind:SolvedMaze": 200,
                        "c20:with-values": 300, "c20:without-values": 300, "c20:strips-checked": 20000, "c20:blocks-checked": 10000,
                        "c20:true-path": 500, "c20:predicted-path": 500, "c20:ascii": 1200, "c20:refused-batch-of-paths": 300, "c20:plotted-twice-without-closing": 150, "c20:callers-path-arrays-overwritten-before-plot": 300, "c20:ascii-with-options": 3600, "c20:oblong": 100,
                        **{f"c20:ul:{u}": 100 for u in (3, 4, 5, 9, 14, 19, 31)}, "c20:int8-paths": 300, "c20:values-contain-minus-one": 200, "c20:negative-values": 50, "c20:constant-values": 50,
                        "c20:replots": 900, "c20:many-predicted-paths": 100, "c20:predicted-paths-sharing-a-label": 60, "c20:rejected-values-call": 200, "c20:drawn-images": 2000, "c20:replot-plain-after-values": 300, "c20:detour-solution": 30}}
THRESHOLDS["thorough"] = dict(THRESHOLDS["quick"])
ANCHORS = ["maze_dataset.plotting.plot_maze:MazePlot._lattice_maze_to_img", "maze_dataset.plotting.plot_maze:MazePlot._rowcol_to_coord",
           "maze_dataset.plotting.plot_maze:MazePlot._plot_path", "maze_dataset.plotting.plot_maze:MazePlot.to_ascii",
           "maze_dataset.plotting.plot_maze:MazePlot.__init__"]
AMBIENT = dict(generators=False, solver=True, solved=False)


class _SkipCase(Exception):
    pass


def is_wall(v, with_values):
    if np.ma.is_masked(v):
        return True
    try:
        f = float(v)
    except Exception:  # noqa: BLE001
        return True
    if np.isnan(f):
        return True
    return (not with_values) and f == -1.0


def check_image(ctx, img, cl, ul, values, case, artist=None):
    if artist is not None:
        check_drawn(ctx, artist, cl, ul, case)
    R, C = cl.shape[1:]
    g = Graph(cl)
    with_values = values is not None
    img = np.ma.asarray(img)
    if not ctx.check(img.shape == (R * ul + 1, C * ul + 1), "C20/image-size", f"got {img.shape} expected {(R * ul + 1, C * ul + 1)}", case):
        return
    data = np.ma.filled(img.astype(float), np.nan)
    for r in range(R):
        for c in range(C):
            blk = data[r * ul + 1:(r + 1) * ul, c * ul + 1:(c + 1) * ul]
            ctx.tally("c20:blocks-checked")
            uniform = np.all(blk == blk[0, 0]) if not np.isnan(blk[0, 0]) else False
            if not ctx.check(bool(uniform), "C20/cell-block-not-uniform-or-wall", f"cell {(r, c)} block {blk.tolist()}", dict(case, cell=(r, c))):
                continue
            if with_values:
                ctx.check(bool(np.isclose(blk[0, 0], values[r, c])), "C20/cell-block-wrong-value",
                          f"cell {(r, c)} carries {blk[0, 0]} expected {values[r, c]}", dict(case, cell=(r, c)))
            else:
                ctx.check(blk[0, 0] != -1.0, "C20/cell-block-is-wall", f"cell {(r, c)}", dict(case, cell=(r, c)))
            for d, (rr, cc) in ((0, (r + 1, c)), (1, (r, c + 1))):
                if rr >= R or cc >= C:
                    continue
                strip = data[(r + 1) * ul, c * ul + 1:(c + 1) * ul] if d == 0 else data[r * ul + 1:(r + 1) * ul, (c + 1) * ul]
                walls = [is_wall(v, with_values) for v in strip]
                ctx.tally("c20:strips-checked")
                conn = g.has_edge((r, c), (rr, cc))
                if conn:
                    ctx.check(not any(walls), "C20/connected-edge-drawn-as-wall", f"edge {(r, c)}-{(rr, cc)} strip {strip.tolist()}",
                              dict(case, edge=((r, c), (rr, cc))))
                else:
                    ctx.check(all(walls), "C20/wall-drawn-as-passage", f"edge {(r, c)}-{(rr, cc)} strip {strip.tolist()}",
                              dict(case, edge=((r, c), (rr, cc))))


def check_drawn(ctx, artist, cl, ul, case):
    """what the image artist actually paints (norm + colour map + its 'bad' colour applied): a wall strip must be painted opaque
    black - the wall colour of both modes (gray map at -1; NaN with the bad colour set to black) - and neither a passage strip
    nor a cell block may be"""
    R, C = cl.shape[1:]
    g = Graph(cl)
    try:
        rgba = np.asarray(artist.to_rgba(artist.get_array()), dtype=float)
    except Exception as ex:  # noqa: BLE001
        ctx.tally("c20:drawn-colours-unavailable")
        ctx.note(f"to_rgba failed: {ex!r}"[:200])
        return
    if rgba.ndim != 3 or rgba.shape[:2] != (R * ul + 1, C * ul + 1):
        return  # size is judged by check_image
    black = (rgba[..., :3].max(axis=-1) < 0.02) & (rgba[..., 3] > 0.98)
    ctx.tally("c20:drawn-images")
    for r in range(R):
        for c in range(C):
            blk = black[r * ul + 1:(r + 1) * ul, c * ul + 1:(c + 1) * ul]
            ctx.check(not blk.any(), "C20/drawn/cell-block-painted-as-wall", f"cell {(r, c)}", dict(case, cell=(r, c)))
            for d, (rr, cc) in ((0, (r + 1, c)), (1, (r, c + 1))):
                if rr >= R or cc >= C:
                    continue
                strip = black[(r + 1) * ul, c * ul + 1:(c + 1) * ul] if d == 0 else black[r * ul + 1:(r + 1) * ul, (c + 1) * ul]
                if g.has_edge((r, c), (rr, cc)):
                    ctx.check(not strip.any(), "C20/drawn/connected-edge-painted-as-wall", f"edge {(r, c)}-{(rr, cc)}", dict(case, edge=((r, c), (rr, cc))))
                else:
                    ctx.check(bool(strip.all()), "C20/drawn/wall-not-painted-as-wall",
                              lambda: f"edge {(r, c)}-{(rr, cc)} is painted {rgba[(r + 1) * ul, c * ul + 1] if d == 0 else rgba[r * ul + 1, (c + 1) * ul]} (wall colour is opaque black)",
                              dict(case, edge=((r, c), (rr, cc))))


def centres(path, ul, im=None):
    """data coordinates of the centres of the cell blocks of `path`, read off the image artist's extent (the default extent puts
    the centre of cell (r, c) at (ul*(c+1/2), ul*(r+1/2)); an implementation may place the image elsewhere in data space)"""
    if im is None:
        return np.array([[ul * (c + 0.5), ul * (r + 0.5)] for r, c in path], dtype=float)
    H, W = np.asarray(im.get_array()).shape[:2]
    x0, x1, y0, y1 = im.get_extent()           # left, right, bottom, top
    upper = getattr(im, "origin", "upper") == "upper"
    out = []
    for r, c in path:
        jx = ul * c + ul / 2.0                   # pixel index (may be half-integer) of the block centre, pixel j spans [j-1/2, j+1/2]
        jy = ul * r + ul / 2.0
        x = x0 + (jx + 0.5) * (x1 - x0) / W
        ytop, ybot = (y1, y0) if upper else (y0, y1)
        y = ytop + (jy + 0.5) * (ybot - ytop) / H
        out.append([x, y])
    return np.array(out, dtype=float)


def run(ctx):
    import matplotlib
    matplotlib.use("Agg")
    import matplotlib.pyplot as plt
    from matplotlib.quiver import Quiver
    from maze_dataset.plotting import MazePlot

    n = 1500 if ctx.quick else 30000
    for j in range(n):
        if not ctx.mine(j):
            continue
        rng = ctx.sub_rng("p", j)
        if j % 4 == 0:
            R, C = int(rng.integers(2, 9)), int(rng.integers(2, 9))
        else:
            R = C = int(rng.integers(2, 9))
        fam = ["tree", "cyc1", "cyc3", "cycN", "perc6", "full", "serpentine"][j % 7]
        fam, cl = ref.random_structure(R, C, rng, fam)
        g = Graph(cl)
        cells = ref.all_cells(R, C)
        kind = ["LatticeMaze", "TargetedLatticeMaze", "SolvedMaze"][j % 3]
        s = cells[int(rng.integers(len(cells)))]
        comp = sorted(g.component_of(s))
        e = comp[int(rng.integers(len(comp)))]
        sol = g.shortest_path(s, e, rng)
        if kind == "SolvedMaze" and j % 2 == 1:
            # a stored solution need not be a shortest route (detours, the long way round a cycle, a model roll-out):
            # a self-avoiding random walk along connections from s
            walk, cur = [s], s
            for _ in range(int(rng.integers(1, 2 * (R + C)))):
                nxt = [v for v in g.adj[cur] if v not in walk]
                if not nxt:
                    break
                cur = nxt[int(rng.integers(len(nxt)))]
                walk.append(cur)
            if len(walk) >= 2:
                sol, e = walk, walk[-1]
                if len(sol) - 1 > g.bfs(s)[e]:
                    ctx.tally("c20:detour-solution")
        ul = [3, 4, 5, 9, 14, 19, 31][int(rng.integers(7))]
        # coordinates as the library itself stores them after a trip through the compact on-disk formats: int8
        pdt = np.int8 if j % 3 == 1 else None
        if pdt is not None:
            ctx.tally("c20:int8-paths")
        if kind == "SolvedMaze" and pdt is not None:
            from maze_dataset.maze.lattice_maze import SolvedMaze as _SM
            maze = _SM(connection_list=np.array(cl, dtype=bool), solution=np.array(sol, dtype=np.int8))
        else:
            maze = lib.lattice(cl) if kind == "LatticeMaze" else (lib.targeted(cl, s, e) if kind == "TargetedLatticeMaze" else lib.solved(cl, sol))
        vmode = j % 7
        values = None
        if vmode in (5, 6):
            # maps that contain the value -1.0 exactly (sign maps, integer-valued maps, maps normalised to [-1, 1])
            if vmode == 5:
                values = np.where(rng.random((R, C)) < 0.5, -1.0, 1.0)
            else:
                values = rng.integers(-2, 3, size=(R, C)).astype(float)
            values[int(rng.integers(R)), int(rng.integers(C))] = -1.0
            ctx.tally("c20:values-contain-minus-one")
        if vmode in (1, 2, 3):
            if vmode == 1:
                values = rng.random((R, C)) * 5
            elif vmode == 2:
                values = rng.normal(size=(R, C)); ctx.tally("c20:negative-values")
            else:
                values = np.full((R, C), float(rng.integers(1, 4))); values[0, 0] += 1.0; ctx.tally("c20:constant-values")
        preds = []
        n_preds = int(rng.integers(0, 4)) if j % 9 else int(rng.integers(7, 14))   # occasionally more paths than default colours
        if n_preds >= 7:
            ctx.tally("c20:many-predicted-paths")
        for _ in range(n_preds):
            m = int(rng.integers(3))
            if m == 0:
                a = cells[int(rng.integers(len(cells)))]
                comp_a = sorted(g.component_of(a))
                p = g.shortest_path(a, comp_a[int(rng.integers(len(comp_a)))], rng)
            elif m == 1:
                p = list(reversed(sol))
            else:
                p = [cells[int(i)] for i in rng.integers(0, len(cells), size=int(rng.integers(2, 7)))]
            if len(p) >= 2:
                preds.append(p)
        extra_true = None
        if kind == "LatticeMaze" and j % 2 == 0:
            extra_true = sol
        case = dict(kind=kind, family=fam, shape=(R, C), cl=cl, s=s, e=e, sol=sol, ul=ul, values=values is not None, preds=preds, extra_true=extra_true)
        fig = None
        try:
            with warnings.catch_warnings():
                warnings.simplefilter("ignore")
                mp = MazePlot(maze, unit_length=ul)
                ascii_plot = mp.to_ascii()
                # (the exports with options are taken here too: before any path is added, the plot shows the maze it was given)
                opt_exports = {}
                for se, ss in ((True, False), (False, True), (False, False)):
                    try:
                        opt_exports[(se, ss)] = ("text", mp.to_ascii(show_endpoints=se, show_solution=ss))
                    except Exception as ex:  # noqa: BLE001
                        opt_exports[(se, ss)] = ("raises", type(ex).__name__)
                if values is not None:
                    mp.add_node_values(values.copy(), color_map=["Blues", "viridis"][j % 2])
                if j % 4 == 2:
                    # a call the library rejects (cell values of the wrong shape) must leave the plot as it was
                    bad = np.full((R + 1 + j % 2, C + 2), 7.5)
                    try:
                        mp.add_node_values(bad)
                        ctx.tally("c20:wrong-shape-values-accepted(not judged)")
                        values = None if True else values  # cannot judge the image of an accepted wrong-shape map
                        raise _SkipCase()
                    except _SkipCase:
                        raise
                    except Exception:  # noqa: BLE001
                        ctx.tally("c20:rejected-values-call")
                handed_over = []   # the caller's own arrays, re-used by the caller after the paths were added (see below)
                if extra_true is not None:
                    if j % 4 == 0:
                        arr_t = np.array(extra_true, dtype=pdt)
                        mp.add_true_path(arr_t)
                        handed_over.append(arr_t)
                    else:
                        mp.add_true_path([tuple(p) for p in extra_true])
                shared_fmt = None
                if j % 5 == 3 and len(preds) >= 2:
                    # several roll-outs drawn with one label / one shared format object
                    from maze_dataset.plotting.plot_maze import PathFormat
                    shared_fmt = PathFormat(label="rollout", color="orange") if j % 2 else "kw"
                    ctx.tally("c20:predicted-paths-sharing-a-label")
                for t, p in enumerate(preds):
                    arg = np.array(p, dtype=pdt) if t % 2 == 0 else [tuple(x) for x in p]
                    if isinstance(arg, np.ndarray):
                        handed_over.append(arg)
                    if shared_fmt is None:
                        mp.add_predicted_path(arg)
                    elif shared_fmt == "kw":
                        mp.add_predicted_path(arg, label="rollout")
                    else:
                        mp.add_predicted_path(arg, path_fmt=shared_fmt)
                if j % 3 == 1 and preds:
                    # a batch of further roll-outs that the plot refuses (its first element is no path - an undecodable roll-out);
                    # the caller catches the error and goes on with the plot: everything added before must still be drawn
                    for bad_batch in ([None, np.array(preds[0])], [7, [tuple(x) for x in preds[0]]], ["nope"]):
                        try:
                            mp.add_multiple_paths(bad_batch)
                            ctx.tally("c20:odd-batch-of-paths-accepted(not judged)")
                            raise _SkipCase()
                        except _SkipCase:
                            raise
                        except Exception:  # noqa: BLE001
                            ctx.tally("c20:refused-batch-of-paths")
                if j % 5 == 2:
                    # the plot is drawn once, then changes (cell values added / another roll-out), and is drawn again while the first
                    # figure is still open: the second picture is the one judged
                    mp.plot()
                    if values is None and j % 2 == 0:
                        values = rng.random((R, C)) * 2 + 0.25
                        mp.add_node_values(values.copy())
                        case["values"] = True
                    ctx.tally("c20:plotted-twice-without-closing")
                if j % 2 == 0 and handed_over:
                    # a path is the list of cells it had when it was added: the caller's buffers are overwritten before plotting
                    for arr_h in handed_over:
                        arr_h[...] = arr_h[::-1].copy() if len(arr_h) > 1 and j % 4 == 0 else 0
                    ctx.tally("c20:callers-path-arrays-overwritten-before-plot")
                mp.plot()
                fig = mp.fig
                ax = mp.ax
        except _SkipCase:
            plt.close("all")
            continue
        except Exception as ex:  # noqa: BLE001
            import traceback
            ctx.violation(f"C20/plot/exception/{type(ex).__name__}", traceback.format_exc()[-1500:], case)
            plt.close("all")
            continue
        try:
            ctx.ev(); ctx.tally("c20:plots"); ctx.tally(f"c20:kind:{kind}"); ctx.tally(f"c20:ul:{ul}")
            ctx.tally("c20:with-values" if values is not None else "c20:without-values")
            if R != C:
                ctx.tally("c20:oblong")
            ctx.nontrivial(kind, cl, ul, values is not None, len(preds), s, e)
            if not ctx.check(len(ax.images) >= 1, "C20/no-image", "", case):
                continue
            check_image(ctx, ax.images[0].get_array(), cl, ul, values, case, artist=ax.images[0])
            # ---- paths -------------------------------------------------------
            # Judged: every listed path is drawn through the centres of exactly its cells, in order (rows vertical, columns
            # horizontal).  Not judged: which artist types are used for end markers, their number, z-order, colours.
            im0 = ax.images[0]
            true_path = sol if kind in ("TargetedLatticeMaze", "SolvedMaze") else extra_true
            lines = [np.asarray(ln.get_xydata(), dtype=float) for ln in ax.lines]
            multi = [xy for xy in lines if xy.ndim == 2 and xy.shape[0] >= 2]

            def drawn_as_line(exp):
                return any(xy.shape == exp.shape and np.allclose(xy, exp, atol=1e-6 * max(1.0, float(np.abs(exp).max()))) for xy in multi)

            if true_path is not None and len(true_path) >= 2:
                ctx.tally("c20:true-path")
                if kind == "TargetedLatticeMaze":
                    # the constructor solves the maze itself: any shortest route s..e is right, drawn through cell centres
                    ok = False
                    for xy in multi:
                        if xy.shape[0] != len(sol):
                            continue
                        # invert the centre map on the candidate by matching against all cells
                        cand = []
                        allc = {tuple(np.round(centres([cc], ul, im0)[0], 6)): cc for cc in cells}
                        for pt in xy:
                            cand.append(allc.get(tuple(np.round(pt, 6))))
                        if None not in cand and g.path_problems(cand, s, e) is None:
                            ok = True
                            break
                    ctx.check(ok, "C20/true-path-geometry-wrong", lambda: f"targeted maze: no drawn line runs through the cell centres of a shortest route {s}->{e} ({len(sol) - 1} steps); lines: {[xy.tolist() for xy in multi][:3]}", case)
                else:
                    exp = centres(true_path, ul, im0)
                    ctx.check(drawn_as_line(exp), "C20/true-path-geometry-wrong",
                              lambda: f"no drawn line runs through {exp.tolist()}; lines: {[xy.tolist() for xy in multi][:3]}", case)
            elif true_path is not None:
                ctx.tally("c20:one-cell-true-path(not judged)")
            quivers = [c for c in ax.collections if isinstance(c, Quiver)]
            if quivers or not preds:
                if ctx.check(len(quivers) == len(preds), "C20/predicted-path-count-wrong", f"{len(quivers)} arrow sets for {len(preds)} predicted paths", case):
                    for t, (q, p) in enumerate(zip(quivers, preds)):
                        exp = centres(p, ul, im0)
                        ctx.tally("c20:predicted-path")
                        X, Y, U, V = (np.asarray(a, dtype=float).ravel() for a in (q.X, q.Y, q.U, q.V))
                        tol = 1e-6 * max(1.0, float(np.abs(exp).max()))
                        ok = (len(X) == len(p) - 1 and np.allclose(X, exp[:-1, 0], atol=tol) and np.allclose(Y, exp[:-1, 1], atol=tol)
                              and np.allclose(U, exp[1:, 0] - exp[:-1, 0], atol=tol) and np.allclose(V, exp[1:, 1] - exp[:-1, 1], atol=tol))
                        ctx.check(ok, "C20/predicted-path-geometry-wrong", lambda: f"path {p}: X={X.tolist()} Y={Y.tolist()} U={U.tolist()} V={V.tolist()} expected centres {exp.tolist()}", dict(case, pred=t))
            else:
                # predicted paths drawn without Quiver artists: each must then appear as a polyline through its cell centres
                for t, p in enumerate(preds):
                    ctx.tally("c20:predicted-path")
                    ctx.check(drawn_as_line(centres(p, ul, im0)), "C20/predicted-path-geometry-wrong", lambda: f"path {p} is not drawn", dict(case, pred=t))
            # ---- ascii ---------------------------------------------------------
            ctx.tally("c20:ascii")
            own = maze.as_ascii()
            if kind == "TargetedLatticeMaze":
                ctx.check(ascii_plot.replace("X", " ") == own, "C20/to_ascii-differs", lambda: f"plot:\n{ascii_plot}\nmaze:\n{own}", case)
            else:
                ctx.check(ascii_plot == own, "C20/to_ascii-differs", lambda: f"plot:\n{ascii_plot}\nmaze:\n{own}", case)
            # the export's own options mirror the maze's: for every other combination the export is what the maze itself draws with
            # the same options (or is refused just as the maze refuses it)
            for se, ss in ((True, False), (False, True), (False, False)):
                with warnings.catch_warnings():
                    warnings.simplefilter("ignore")
                    try:
                        own_o = ("text", maze.as_ascii(show_endpoints=se, show_solution=ss))
                    except Exception as ex:  # noqa: BLE001
                        own_o = ("raises", type(ex).__name__)
                got_o = opt_exports[(se, ss)]
                ctx.tally("c20:ascii-with-options")
                ctx.check(got_o == own_o, f"C20/to_ascii-differs/options/{kind}/show_endpoints={se},show_solution={ss}",
                          lambda: f"plot export: {got_o[0]} {got_o[1]!r}\nmaze itself: {own_o[0]} {own_o[1]!r}"[:900], case)
            exp_ascii = ref.ascii_of(ref.pixels(cl, None if kind == "LatticeMaze" else s, None if kind == "LatticeMaze" else e,
                                                sol if kind == "SolvedMaze" else None))
            got_ascii = ascii_plot.replace("X", " ") if kind == "TargetedLatticeMaze" else ascii_plot
            ctx.check(got_ascii == exp_ascii, "C20/to_ascii-not-the-maze", lambda: f"plot:\n{ascii_plot}\nexpected:\n{exp_ascii}", case)
            # ---- history: the same maze (same object / an equal fresh object) plotted again with the other values mode,
            # then again as first time; every image must still be the one of its own arguments
            if j % 3 == 0:
                seq = [None if values is not None else rng.random((R, C)) * 3 + 0.5, values, None]
                for step, v2 in enumerate(seq):
                    maze2 = maze if (j + step) % 2 == 0 else (lib.lattice(cl.copy()) if kind == "LatticeMaze" else
                                                               (lib.targeted(cl.copy(), s, e) if kind == "TargetedLatticeMaze" else lib.solved(cl.copy(), sol)))
                    c2 = dict(case, history_step=step, values=v2 is not None, same_object=maze2 is maze)
                    try:
                        with warnings.catch_warnings():
                            warnings.simplefilter("ignore")
                            mp2 = MazePlot(maze2, unit_length=ul)
                            if v2 is not None:
                                mp2.add_node_values(np.array(v2, dtype=float).copy())
                            mp2.plot()
                        ctx.ev(); ctx.tally("c20:replots")
                        ctx.tally("c20:replot-plain-after-values" if (v2 is None and step > 0 or (v2 is None and values is not None)) else "c20:replot-other")
                        if ctx.check(len(mp2.ax.images) >= 1, "C20/no-image", "", c2):
                            check_image(ctx, mp2.ax.images[0].get_array(), cl, ul, v2, c2, artist=mp2.ax.images[0])
                    except Exception as ex:  # noqa: BLE001
                        ctx.violation(f"C20/plot/exception/{type(ex).__name__}", repr(ex)[:500], c2)
                    finally:
                        plt.close("all")
            if j < 3:
                ctx.sample(dict(kind=kind, shape=(R, C), ul=ul, values=values is not None, n_pred=len(preds), image_shape=list(ax.images[0].get_array().shape)))
        finally:
            plt.close("all")
