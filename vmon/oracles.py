"""Oracles shared by direct workloads and the ambient monitors (C01, C02, C12).

They receive plain observations (arrays, dicts, tuples) and a Ctx to report to.
They never call the library.
"""

from __future__ import annotations

import math

import numpy as np

from .ref import Graph

GEN_NAMES = ("gen_dfs", "gen_prim", "gen_wilson", "gen_percolation", "gen_dfs_percolation")


def _shape_tuple(grid_shape):
    try:
        return tuple(int(x) for x in grid_shape)
    except Exception:  # noqa: BLE001
        return None


def check_c01(ctx, gen: str, grid_shape, kwargs: dict, maze, case=None, owner="C01") -> Graph | None:
    """well-formedness of a generator's return value; returns the Graph if it could be built"""
    ctx.tally(f"c01:{gen}")
    shp = _shape_tuple(grid_shape)
    cl = getattr(maze, "connection_list", None)
    if not ctx.check(isinstance(cl, np.ndarray), f"C01/{gen}/not-ndarray", f"type={type(cl)}", case, owner):
        return None
    if not ctx.check(cl.dtype == np.bool_, f"C01/{gen}/dtype", f"dtype={cl.dtype}", case, owner):
        return None
    if not ctx.check(shp is not None and cl.shape == (2, *shp), f"C01/{gen}/shape",
                     f"connection_list.shape={cl.shape} requested={shp}", case, owner):
        return None
    g = Graph(cl)
    ctx.check(g.boundary_ok(), f"C01/{gen}/edge-leaves-grid",
              lambda: f"last row of [0] = {cl[0, -1, :].tolist()} last col of [1] = {cl[1, :, -1].tolist()}",
              case, owner)
    R, C = shp
    lattice_edges = R * (C - 1) + C * (R - 1)
    if gen in ("gen_dfs", "gen_prim"):
        unconstrained = (
            kwargs.get("accessible_cells") is None
            and kwargs.get("max_tree_depth") is None
            and kwargs.get("do_forks", True) is True
        )
        if unconstrained:
            ctx.tally("c01:spanning-checked:dfs")
            ctx.check(g.is_spanning_tree(), f"C01/{gen}/not-spanning-tree",
                      lambda: f"edges={g.n_edges()} components={g.n_components()} cells={R * C} cl={cl.astype(int).tolist()}",
                      case, owner)
    elif gen == "gen_wilson":
        ctx.tally("c01:spanning-checked:wilson")
        ctx.check(g.is_spanning_tree(), f"C01/{gen}/not-spanning-tree",
                  lambda: f"edges={g.n_edges()} components={g.n_components()} cells={R * C} cl={cl.astype(int).tolist()}",
                  case, owner)
    elif gen in ("gen_percolation", "gen_dfs_percolation"):
        p = kwargs.get("p", 0.4)
        if p == 0 and gen == "gen_percolation":
            ctx.tally("c01:p0")
            ctx.check(g.n_edges() == 0 and not cl.any(), f"C01/{gen}/p0-has-connection",
                      lambda: f"edges={g.n_edges()}", case, owner)
        if p == 1:
            ctx.tally("c01:p1")
            ctx.check(g.n_edges() == lattice_edges, f"C01/{gen}/p1-missing-edge",
                      lambda: f"edges={g.n_edges()} lattice={lattice_edges}", case, owner)
    return g


def _as_cellset(v):
    if v is None:
        return None
    if isinstance(v, np.ndarray):
        if v.ndim != 2:
            return None
        return {tuple(int(x) for x in c) for c in v}
    try:
        return {tuple(int(x) for x in c) for c in v}
    except Exception:  # noqa: BLE001
        return None


def check_c12(ctx, gen: str, grid_shape, kwargs: dict, maze, g: Graph | None = None, case=None, owner="C12"):
    """truthfulness of generation_meta"""
    ctx.tally(f"c12:{gen}")
    meta = getattr(maze, "generation_meta", None)
    if not ctx.check(isinstance(meta, dict), f"C12/{gen}/no-meta", f"meta={meta!r}", case, owner):
        return
    if g is None:
        g = Graph(maze.connection_list)
    R, C = g.R, g.C
    total = R * C
    connected = g.connected()
    fc = meta.get("fully_connected", False)
    visited_raw = meta.get("visited_cells", None)
    visited = _as_cellset(visited_raw)
    if fc:
        ctx.tally("c12:flagged-fully-connected")
        ctx.check(connected, f"C12/{gen}/flagged-connected-but-disconnected",
                  lambda: f"components={g.n_components()}", case, owner)
    else:
        ctx.tally("c12:not-flagged")
        ctx.check(visited is not None, f"C12/{gen}/unflagged-without-visited-cells",
                  f"meta keys={sorted(meta)}", case, owner)
    if gen in ("gen_dfs", "gen_prim"):
        ctx.check(bool(fc) == connected, f"C12/{gen}/flag-not-iff-connected",
                  lambda: f"fully_connected={fc} connected={connected}", case, owner)
    if visited_raw is not None:
        ctx.tally("c12:visited-recorded")
        ok = ctx.check(visited is not None, f"C12/{gen}/visited-cells-malformed", f"type={type(visited_raw)}", case, owner)
        sc = meta.get("start_coord", None)
        if ok and ctx.check(sc is not None, f"C12/{gen}/visited-without-start-coord", f"meta keys={sorted(meta)}", case, owner):
            sc_t = tuple(int(x) for x in sc)
            if ctx.check(g.in_grid(sc_t), f"C12/{gen}/start-coord-outside-grid", f"{sc_t}", case, owner):
                comp = g.component_of(sc_t)
                if len(comp) < total:
                    ctx.tally("c12:start-component-strict-subset")
                ctx.check(visited == comp, f"C12/{gen}/visited-not-start-component",
                          lambda: f"start={sc_t} |visited|={len(visited)} |component|={len(comp)} "
                                  f"visited-comp={sorted(visited - comp)[:6]} comp-visited={sorted(comp - visited)[:6]}",
                          case, owner)
    if gen in ("gen_dfs", "gen_prim") and visited is not None:
        # constrained DFS: tree over exactly the visited cells
        ne = g.n_edges()
        touched = {c for e in g.edges() for c in e}
        ctx.check(touched <= visited and ne == len(visited) - 1,
                  f"C12/{gen}/not-a-tree-over-visited",
                  lambda: f"edges={ne} |visited|={len(visited)} stray={sorted(touched - visited)[:6]}", case, owner)
        ac = kwargs.get("accessible_cells")
        if ac is None:
            n_lo = n_hi = total
        elif isinstance(ac, float):
            n_lo, n_hi = math.floor(ac * total), math.ceil(ac * total)
        else:
            n_lo = n_hi = int(ac)
        ctx.check(len(visited) <= max(1, n_hi), f"C12/{gen}/more-cells-than-accessible",
                  lambda: f"|visited|={len(visited)} accessible={ac} total={total}", case, owner)
        no_limit = kwargs.get("max_tree_depth") is None and kwargs.get("do_forks", True) is True
        if no_limit:
            ctx.tally("c12:exact-count-checked")
            lo = min(total, max(1, n_lo))
            hi = min(total, max(1, n_hi))
            ctx.check(lo <= len(visited) <= hi, f"C12/{gen}/accessible-count-not-exact",
                      lambda: f"|visited|={len(visited)} expected in [{lo},{hi}] accessible={ac} total={total}", case, owner)
        if kwargs.get("do_forks", True) is False:
            ctx.tally("c12:no-forks")
            mx = max((g.degree(c) for c in visited), default=0)
            ctx.check(mx <= 2, f"C12/{gen}/fork-in-corridor", lambda: f"max degree {mx}", case, owner)
            if mx <= 2 and len(visited) > 2:
                ctx.tally("c12:no-forks-nontrivial")


def check_c02(ctx, g: Graph, s, e, result, exc, case=None, owner="C02", dist_cache: dict | None = None):
    """solver soundness/optimality/completeness.  exactly one of result / exc is not None."""
    s = tuple(int(x) for x in s)
    e = tuple(int(x) for x in e)
    if dist_cache is not None:
        dist = dist_cache.get(s)
        if dist is None:
            dist = dist_cache[s] = g.bfs(s)
    else:
        dist = g.bfs(s)
    reachable = e in dist
    if exc is not None:
        if reachable:
            ctx.violation("C02/raised-though-reachable", f"{type(exc).__name__}: {str(exc)[:300]} s={s} e={e} dist={dist[e]}", case, owner)
        else:
            ctx.tally("c02:unreachable-raised")
            ctx.check(isinstance(exc, ValueError), f"C02/unreachable-wrong-exception/{type(exc).__name__}",
                      f"{type(exc).__name__}: {str(exc)[:300]}", case, owner)
        return
    if not reachable:
        ctx.violation("C02/returned-path-for-unreachable", f"s={s} e={e} path={np.asarray(result).tolist()}", case, owner)
        return
    try:
        arr = np.asarray(result)
        ok_shape = arr.ndim == 2 and arr.shape[1] == 2 and arr.shape[0] >= 1
    except Exception:  # noqa: BLE001
        ok_shape = False
    if not ctx.check(ok_shape, "C02/malformed-path", f"result={result!r}"[:400], case, owner):
        return
    prob = g.path_problems(arr, s, e)
    if not ctx.check(prob is None, "C02/unsound-path", lambda: f"{prob}; s={s} e={e} path={arr.tolist()}", case, owner):
        return
    if s == e:
        ctx.tally("c02:self-query")
        ctx.check(arr.shape[0] == 1, "C02/self-query-not-one-cell", lambda: f"path={arr.tolist()}", case, owner)
    ctx.check(arr.shape[0] - 1 == dist[e], "C02/not-shortest",
              lambda: f"s={s} e={e} returned {arr.shape[0] - 1} steps, BFS {dist[e]}; path={arr.tolist()}", case, owner)
    ctx.tally("c02:reachable-ok")
