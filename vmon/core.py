"""Shard-side context: counters, distinct-case digests, samples, violations.

A property module implements ``run(ctx)``.  ``ctx`` is the only channel through
which it reports what it observed.  Nothing here imports the code under test.
"""

from __future__ import annotations

import hashlib
import json
import os
import struct
import tempfile
import threading
import time
import traceback
from contextlib import contextmanager

import numpy as np

VERIF_ROOT = os.path.dirname(os.path.dirname(os.path.abspath(__file__)))


def jsonable(o, depth=0):
    """best-effort conversion of case descriptors to JSON"""
    if depth > 8:
        return repr(o)[:200]
    if isinstance(o, (str, int, float, bool)) or o is None:
        return o
    if isinstance(o, (np.integer,)):
        return int(o)
    if isinstance(o, (np.floating,)):
        return float(o)
    if isinstance(o, np.bool_):
        return bool(o)
    if isinstance(o, np.ndarray):
        if o.size <= 400:
            return {"__nd__": o.astype(int).tolist() if o.dtype == bool else o.tolist(),
                    "dtype": str(o.dtype)}
        return {"__nd_sha__": hashlib.sha256(o.tobytes()).hexdigest()[:16],
                "shape": list(o.shape), "dtype": str(o.dtype)}
    if isinstance(o, dict):
        return {str(k): jsonable(v, depth + 1) for k, v in o.items()}
    if isinstance(o, (list, tuple, set, frozenset)):
        return [jsonable(v, depth + 1) for v in (sorted(o, key=repr) if isinstance(o, (set, frozenset)) else o)]
    return repr(o)[:300]


def digest8(*parts) -> bytes:
    h = hashlib.sha256()
    for p in parts:
        if isinstance(p, np.ndarray):
            h.update(str(p.shape).encode())
            h.update(str(p.dtype).encode())
            h.update(np.ascontiguousarray(p).tobytes())
        elif isinstance(p, bytes):
            h.update(p)
        else:
            h.update(repr(p).encode())
        h.update(b"\x00")
    return h.digest()[:8]


def derive_seed(*parts) -> int:
    h = hashlib.sha256("/".join(str(p) for p in parts).encode()).digest()
    return int.from_bytes(h[:8], "big")


class Ctx:
    MAX_VIOL_PER_MECH = 3
    MAX_SAMPLES = 4

    def __init__(self, prop: str, tier: str, seed: int, shard: int, nshards: int, only_case=None):
        self.prop = prop
        self.tier = tier
        self.seed = seed
        self.shard = shard
        self.nshards = nshards
        self.quick = tier == "quick"
        self.rng = np.random.Generator(np.random.PCG64(derive_seed(seed, prop, shard)))
        self.evaluations = 0
        self.tallies: dict[str, int] = {}
        self.digests: set[bytes] = set()
        self.samples: list = []
        self.violations: list[dict] = []
        self.viol_counts: dict[str, int] = {}
        self.ambient: list[dict] = []
        self.notes: list[str] = []
        self.t0 = time.time()
        self.only_case = only_case
        self._case_counter = 0
        self.pid = os.getpid()
        self.work = os.environ.get("VMON_WORK") or tempfile.mkdtemp(prefix="vmon-w-")
        os.makedirs(self.work, exist_ok=True)
        self.sink = os.path.join(self.work, "child_events.jsonl")
        self._lock = threading.RLock()   # ambient monitors may report from several threads of the code under test

    # ---- work splitting -------------------------------------------------
    def mine(self, i: int) -> bool:
        return i % self.nshards == self.shard

    def mine_key(self, *parts) -> bool:
        """partition by a stable key (robust when shards may count differently)"""
        return derive_seed("mine", *parts) % self.nshards == self.shard

    def sub_rng(self, *parts) -> np.random.Generator:
        return np.random.Generator(np.random.PCG64(derive_seed(self.seed, self.prop, *parts)))

    def case_seed(self, *parts) -> int:
        return derive_seed(self.seed, self.prop, *parts) % (2**31 - 1)

    # ---- accounting -----------------------------------------------------
    def ev(self, n: int = 1):
        with self._lock:
            self.evaluations += n

    def tally(self, key: str, n: int = 1):
        with self._lock:
            self.tallies[key] = self.tallies.get(key, 0) + n

    def nontrivial(self, *descr):
        self.digests.add(digest8(*descr))

    def sample(self, obj, force=False):
        if force or len(self.samples) < self.MAX_SAMPLES:
            self.samples.append(jsonable(obj))

    def note(self, s: str):
        if len(self.notes) < 50:
            self.notes.append(s)

    # ---- verdicts -------------------------------------------------------
    def violation(self, mechanism: str, detail: str, case=None, owner: str | None = None):
        owner = owner or self.prop
        rec = dict(
            property=owner,
            mechanism=mechanism,
            detail=str(detail)[:3000],
            case=jsonable(case),
            shard=self.shard,
            nshards=self.nshards,
            tier=self.tier,
            seed=self.seed,
        )
        if os.getpid() != self.pid:
            # forked pool worker: our memory is lost at exit, so append to the O_APPEND sink (records < 4 KiB)
            rec["detail"] = rec["detail"][:1200]
            rec["case"] = None if len(json.dumps(rec["case"])) > 1500 else rec["case"]
            line = (json.dumps(dict(kind="violation", rec=rec)) + "\n").encode()
            fd = os.open(self.sink, os.O_WRONLY | os.O_APPEND | os.O_CREAT, 0o644)
            try:
                os.write(fd, line)
            finally:
                os.close(fd)
            return
        if owner != self.prop:
            if len(self.ambient) < 20:
                self.ambient.append(rec)
            return
        with self._lock:
            n = self.viol_counts.get(mechanism, 0) + 1
            self.viol_counts[mechanism] = n
            if n <= self.MAX_VIOL_PER_MECH:
                self.violations.append(rec)

    def check(self, cond, mechanism: str, detail="", case=None, owner=None) -> bool:
        if not cond:
            self.violation(mechanism, detail() if callable(detail) else detail, case, owner)
            return False
        return True

    @contextmanager
    def guard(self, mechanism: str, case=None, allowed: tuple = (), owner=None):
        """an unexpected exception inside the block is a violation whose witness is the traceback;
        exceptions in ``allowed`` are documented rejections and are tallied."""
        try:
            yield
        except allowed as e:  # type: ignore[misc]
            self.tally(f"rejected:{mechanism}:{type(e).__name__}")
        except _Skip:
            pass
        except Exception as e:  # noqa: BLE001
            tb = traceback.format_exc(limit=6)
            self.violation(f"{mechanism}/exception/{type(e).__name__}", tb[-2500:], case, owner)

    def child_event(self, **kw):
        """append one small record from any process (used by probes that run inside forked pool workers)"""
        line = (json.dumps(dict(kind="event", pid=os.getpid(), **kw)) + "\n").encode()
        fd = os.open(self.sink, os.O_WRONLY | os.O_APPEND | os.O_CREAT, 0o644)
        try:
            os.write(fd, line)
        finally:
            os.close(fd)

    def drain_sink(self) -> list[dict]:
        """read and clear the sink; violations reported by children are adopted, events are returned"""
        events = []
        if not os.path.exists(self.sink):
            return events
        with open(self.sink) as f:
            lines = f.readlines()
        os.unlink(self.sink)
        for ln in lines:
            try:
                d = json.loads(ln)
            except ValueError:
                self.tally("sink:torn-record")
                continue
            if d.get("kind") == "violation":
                r = d["rec"]
                self.tally("sink:child-violation")
                self.violation(r["mechanism"] , "[seen in pool worker] " + r["detail"], r["case"], owner=r["property"])
            else:
                events.append(d)
        return events

    # ---- output ---------------------------------------------------------
    def dump(self, path: str):
        if os.getpid() != self.pid:
            return
        self.drain_sink()
        with open(path + ".dig", "wb") as f:
            for d in self.digests:
                f.write(d)
        out = dict(
            prop=self.prop, tier=self.tier, seed=self.seed, shard=self.shard, nshards=self.nshards,
            evaluations=self.evaluations, tallies=self.tallies, samples=self.samples,
            violations=self.violations, viol_counts=self.viol_counts, ambient=self.ambient,
            notes=self.notes, wall_s=time.time() - self.t0, n_digests=len(self.digests),
        )
        tmp = path + ".tmp"
        with open(tmp, "w") as f:
            json.dump(out, f)
        os.replace(tmp, path)


class _Skip(Exception):
    pass


class CallTimeout(BaseException):
    """raised by the per-call watchdog; BaseException so that library `except Exception` cannot swallow it"""


@contextmanager
def call_watchdog(ctx, seconds: int, what: str):
    """generous *CPU-time* watchdog around one library call (ITIMER_PROF counts this process's user+system time only,
    so a loaded machine cannot make it fire).  Firing is INCONCLUSIVE (tally 'timeout:*'), never a violation."""
    import signal

    def _h(_s, _f):
        raise CallTimeout(what)

    old = signal.signal(signal.SIGPROF, _h)
    signal.setitimer(signal.ITIMER_PROF, float(seconds))
    try:
        yield
    except CallTimeout:
        ctx.tally(f"timeout:{what}")
        ctx.note(f"watchdog fired after {seconds}s of CPU time in {what}")
    finally:
        signal.setitimer(signal.ITIMER_PROF, 0.0)
        signal.signal(signal.SIGPROF, old)
