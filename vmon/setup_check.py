"""MANIFEST.setup_cmd: nothing to compile; byte-check the harness, validate known_findings.json."""
import compileall
import json
import os
import sys

ROOT = os.path.dirname(os.path.dirname(os.path.abspath(__file__)))


def main():
    ok = compileall.compile_dir(os.path.join(ROOT, "vmon"), quiet=1, legacy=False, workers=1)
    kf = os.path.join(ROOT, "known_findings.json")
    with open(kf) as f:
        data = json.load(f)
    assert isinstance(data.get("findings"), list) and isinstance(data.get("fixed"), list)
    for k in data["findings"]:
        assert {"property", "mechanism", "what"} <= set(k), k
    import maze_dataset  # noqa: F401
    print("setup ok; maze_dataset at", maze_dataset.__file__)
    return 0 if ok else 1


if __name__ == "__main__":
    sys.exit(main())
