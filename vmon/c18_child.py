"""fresh-process side of C18: stable_hash_cfg / to_fname of the given config specs"""
from __future__ import annotations

import json
import sys
import warnings


def main():
    warnings.filterwarnings("ignore")
    specs = json.load(sys.stdin)
    from vmon.props.c18 import make_cfg

    res = {}
    for spec in specs:
        try:
            cfg = make_cfg(spec)
            res[spec["key"]] = [int(cfg.stable_hash_cfg()), cfg.to_fname()]
        except Exception as e:  # noqa: BLE001
            res[spec["key"]] = f"EXC:{type(e).__name__}:{str(e)[:200]}"
    json.dump(res, sys.stdout)


if __name__ == "__main__":
    main()
