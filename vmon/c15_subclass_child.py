"""fresh-process side of C15: a program that extends the tokenizer space.  For each abstract element class: enumerate it, define a new
concrete element class under it (one boolean field), enumerate it again; the second enumeration is the first plus the new class's
valid instances, each exactly once.  Also the same on a small hierarchy of plain dataclasses (no tokenizer code involved) and the
consequence one level up (path tokenizers after a new step size).  Prints one JSON object."""

import abc
import json
import sys
import warnings
from dataclasses import dataclass


def main():
    warnings.filterwarnings("ignore")
    from muutils.json_serialize import serializable_dataclass, serializable_field

    from maze_dataset import tokenization as T
    from maze_dataset.tokenization.all_tokenizers import MAZE_TOKENIZER_MODULAR_DEFAULT_VALIDATION_FUNCS as VF
    from maze_dataset.utils import all_instances

    out = {"bases": {}, "plain": {}}

    def names(tp):
        return [x.name for x in all_instances(tp, VF)]

    # enumerate the path tokenizers first (they contain step sizes), to compare after a step size was added
    try:
        paths_before = len(names(T.PathTokenizers._PathTokenizer))
        sizes_before = len(names(T.StepSizes._StepSize))
    except Exception as e:  # noqa: BLE001
        paths_before = sizes_before = None
        out["paths_error"] = f"{type(e).__name__}: {e}"[:200]

    # two enumerations alive at the same time (one peeked at with next(), the other run to the end in between; different validation
    # functions): each must give what it gives on its own
    inter = out["interleaved"] = {}
    for ns_i, bn_i in (("PathTokenizers", "_PathTokenizer"), ("AdjListTokenizers", "_AdjListTokenizer"), ("CoordTokenizers", "_CoordTokenizer"), ("StepSizes", "_StepSize")):
        try:
            tp = getattr(getattr(T, ns_i), bn_i)
            alone_vf = sorted(x.name for x in all_instances(tp, VF))
            alone_raw = sorted(x.name for x in all_instances(tp, None))
            it_raw = all_instances(tp, None)
            first_raw = [next(it_raw).name]
            inner_vf = sorted(x.name for x in all_instances(tp, VF))
            rest_raw = sorted(first_raw + [x.name for x in it_raw])
            it_vf = all_instances(tp, VF)
            first_vf = [next(it_vf).name]
            inner_raw = sorted(x.name for x in all_instances(tp, None))
            rest_vf = sorted(first_vf + [x.name for x in it_vf])
            inter[f"{ns_i}.{bn_i}"] = dict(alone_vf=len(alone_vf), alone_raw=len(alone_raw), inner_vf=len(inner_vf), outer_raw=len(rest_raw), inner_raw=len(inner_raw), outer_vf=len(rest_vf),
                                           same=(inner_vf == alone_vf and rest_raw == alone_raw and inner_raw == alone_raw and rest_vf == alone_vf))
        except Exception as e:  # noqa: BLE001
            inter[f"{ns_i}.{bn_i}"] = dict(error=f"{type(e).__name__}: {e}"[:200])

    bases = [("CoordTokenizers", "_CoordTokenizer"), ("EdgeGroupings", "_EdgeGrouping"), ("EdgePermuters", "_EdgePermuter"), ("EdgeSubsets", "_EdgeSubset"),
             ("AdjListTokenizers", "_AdjListTokenizer"), ("TargetTokenizers", "_TargetTokenizer"), ("StepSizes", "_StepSize"), ("StepTokenizers", "_StepTokenizer"),
             ("PathTokenizers", "_PathTokenizer"), ("PromptSequencers", "_PromptSequencer")]
    for ns, bn in bases:
        key = f"{ns}.{bn}"
        rec = out["bases"][key] = {}
        try:
            base = getattr(getattr(T, ns), bn)
            if bn in ("_PromptSequencer", "_PathTokenizer", "_AdjListTokenizer"):
                # large spaces: enumerated by the main check; here only the small element classes
                rec["skipped"] = "large"
                continue
            before = names(base)
            rec["before"] = len(before)
            rec["before_dups"] = len(before) - len(set(before))
            body = {m: (lambda self, *a, **k: []) for m in getattr(base, "__abstractmethods__", ())}
            body["is_valid"] = lambda self: True
            body["__annotations__"] = {"vmon_flag": bool}
            body["vmon_flag"] = serializable_field(default=False)
            body["__module__"] = __name__
            body["__doc__"] = "an element class a user program adds"
            cls = serializable_dataclass(frozen=True, kw_only=True)(type(f"VmonAdded{ns}", (base,), body))
            mine = [cls(vmon_flag=False).name, cls(vmon_flag=True).name]
            rec["new_distinct"] = len(set(mine))
            after = names(base)
            rec["after"] = len(after)
            rec["after_dups"] = len(after) - len(set(after))
            rec["missing"] = sorted((set(before) | set(mine)) - set(after))[:5]
            rec["extra"] = sorted(set(after) - (set(before) | set(mine)))[:5]
            # and once more: nothing changes without a new class
            again = names(base)
            rec["again_same"] = sorted(again) == sorted(after)
        except Exception as e:  # noqa: BLE001
            rec["error"] = f"{type(e).__name__}: {e}"[:300]
    try:
        if paths_before is not None:
            out["paths"] = dict(before=paths_before, sizes_before=sizes_before, after=len(names(T.PathTokenizers._PathTokenizer)),
                                sizes_after=len(names(T.StepSizes._StepSize)))
    except Exception as e:  # noqa: BLE001
        out["paths_error"] = f"{type(e).__name__}: {e}"[:200]

    # plain dataclasses, with and without validation functions
    class Base(abc.ABC):
        @abc.abstractmethod
        def f(self): ...

    @dataclass(frozen=True)
    class A(Base):
        x: bool
        def f(self): return 1

    def cnt(vf=None):
        return sorted(repr(v) for v in all_instances(Base, vf))
    Base = dataclass(frozen=True)(Base)
    vf = {A: lambda a: a.x}
    p0, p0v = cnt(), cnt(vf)

    @dataclass(frozen=True)
    class B(Base):
        y: bool
        z: bool
        def f(self): return 2
    p1, p1v = cnt(), cnt(vf)
    out["plain"] = dict(before=len(p0), after=len(p1), before_vf=len(p0v), after_vf=len(p1v), after_distinct=len(set(p1)))
    json.dump(out, sys.stdout)


if __name__ == "__main__":
    main()
