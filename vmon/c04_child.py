"""Pristine-process side of C04 (and C18): generate the given configs serially, print per-maze digests.

    python -m vmon.c04_child   < specs.json  > digests.json
spec: {"key":..., "gen":..., "kwargs":..., "grid_n":..., "n_mazes":..., "seed":..., "endpoint_kwargs":..., "filters":[...]}
"""

from __future__ import annotations

import hashlib
import json
import sys
import warnings


def make_cfg(spec, with_filters=True):
    from maze_dataset import MazeDatasetConfig
    from maze_dataset.generation.generators import GENERATORS_MAP

    ek = {k: ([tuple(x) for x in v] if isinstance(v, list) else v) for k, v in (spec.get("endpoint_kwargs") or {}).items()}
    filters = [dict(name=f["name"], args=tuple(f.get("args", ())), kwargs=dict(f.get("kwargs", {}))) for f in spec.get("filters", [])]
    with warnings.catch_warnings():
        warnings.simplefilter("ignore")
        return MazeDatasetConfig(name=spec.get("name", "c04"), grid_n=spec["grid_n"], n_mazes=spec["n_mazes"],
                                 maze_ctor=GENERATORS_MAP[spec["gen"]], maze_ctor_kwargs=dict(spec.get("kwargs") or {}),
                                 endpoint_kwargs=ek, seed=spec["seed"], applied_filters=filters if with_filters else [])


def digest_mazes(mazes) -> list[str]:
    import numpy as np

    out = []
    for m in mazes:
        h = hashlib.sha256()
        h.update(np.ascontiguousarray(m.connection_list).astype(np.uint8).tobytes())
        h.update(b"|")
        h.update(np.ascontiguousarray(np.asarray(m.solution)).astype(np.int64).tobytes())
        out.append(h.hexdigest()[:20])
    return out


def main():
    warnings.filterwarnings("ignore")
    specs = json.load(sys.stdin)
    from maze_dataset import MazeDataset

    res = {}
    for spec in specs:
        try:
            cfg = make_cfg(spec, with_filters=False)
            ds = MazeDataset.generate(cfg, gen_parallel=False)
            res[spec["key"]] = digest_mazes(ds.mazes)
        except Exception as e:  # noqa: BLE001
            res[spec["key"]] = f"EXC:{type(e).__name__}:{str(e)[:200]}"
    json.dump(res, sys.stdout)


if __name__ == "__main__":
    main()
