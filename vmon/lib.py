"""helpers that touch the library (imported lazily by property modules)"""

from __future__ import annotations

import numpy as np


def lattice(cl):
    from maze_dataset.maze.lattice_maze import LatticeMaze

    return LatticeMaze(connection_list=np.array(cl, dtype=bool))


def targeted(cl, s, e):
    from maze_dataset.maze.lattice_maze import TargetedLatticeMaze

    return TargetedLatticeMaze(connection_list=np.array(cl, dtype=bool), start_pos=np.array(s), end_pos=np.array(e))


def solved(cl, path, meta=None):
    from maze_dataset.maze.lattice_maze import SolvedMaze

    return SolvedMaze(connection_list=np.array(cl, dtype=bool), solution=np.array(path), generation_meta=meta)
