"""helpers that touch the library (imported lazily by property modules)

Memory layout is part of the input diversity: a maze is the same maze whether its arrays are C-contiguous (what the library
itself produces), Fortran-ordered, or non-contiguous views into larger buffers.  Every third object built here gets one of the
other layouts (deterministic rotation), for every check that builds its mazes through these helpers."""

from __future__ import annotations

import numpy as np

_N = [0]
LAYOUT_TALLY = {"C": 0, "F": 0, "view": 0}


def _layout(a: np.ndarray) -> np.ndarray:
    _N[0] += 1
    k = _N[0] % 6
    if k == 2 and a.ndim >= 2:
        LAYOUT_TALLY["F"] += 1
        return np.asfortranarray(a)
    if k == 4:
        # a non-contiguous view: every second element of a buffer twice as long in the last axis
        big = np.zeros(a.shape[:-1] + (a.shape[-1] * 2,), dtype=a.dtype)
        big[..., ::2] = a
        LAYOUT_TALLY["view"] += 1
        return big[..., ::2]
    LAYOUT_TALLY["C"] += 1
    return a


_D = [0]
DTYPE_TALLY = {"int8": 0, "int16": 0, "default": 0}


def _coords(a) -> np.ndarray:
    """coordinates in one of the integer types the library itself produces: the platform default (generators, solver), int8 (what the
    minimal dataset formats and the adjacency-list helpers hand out - the library's declared coordinate type) or int16"""
    a = np.array(a)
    _D[0] += 1
    k = _D[0] % 5
    if a.size and a.dtype.kind in "iu" and a.min() >= 0:
        if k == 1 and a.max() < 128:
            DTYPE_TALLY["int8"] += 1
            return a.astype(np.int8)
        if k == 3 and a.max() < 32768:
            DTYPE_TALLY["int16"] += 1
            return a.astype(np.int16)
    DTYPE_TALLY["default"] += 1
    return a


def lattice(cl):
    from maze_dataset.maze.lattice_maze import LatticeMaze

    return LatticeMaze(connection_list=_layout(np.array(cl, dtype=bool)))


def targeted(cl, s, e):
    from maze_dataset.maze.lattice_maze import TargetedLatticeMaze

    return TargetedLatticeMaze(connection_list=_layout(np.array(cl, dtype=bool)), start_pos=_coords(s), end_pos=_coords(e))


def solved(cl, path, meta=None):
    from maze_dataset.maze.lattice_maze import SolvedMaze

    return SolvedMaze(connection_list=_layout(np.array(cl, dtype=bool)), solution=_layout(_coords(path)), generation_meta=meta)


_SUB = {}


def solved_subclass(cl, path, meta=None):
    """the same maze as an instance of a user-defined subclass of SolvedMaze (the library builds instances through cls(...), so
    subclassing is supported; a solved maze of a subclass is still a solved maze)"""
    from maze_dataset.maze.lattice_maze import SolvedMaze

    if "cls" not in _SUB:
        class LabelledSolvedMaze(SolvedMaze):
            pass
        _SUB["cls"] = LabelledSolvedMaze
    return _SUB["cls"](connection_list=_layout(np.array(cl, dtype=bool)), solution=np.array(path), generation_meta=meta)
