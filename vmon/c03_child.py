"""fresh-process side of C03: parallel generation under another multiprocessing start method (spawn / forkserver are the
defaults on other platforms); every item is judged with the same oracle as in the main workload; prints a JSON report"""
from __future__ import annotations

import json
import sys
import warnings


class MiniCtx:
    def __init__(self):
        self.tallies, self.viol = {}, []

    def tally(self, k, n=1):
        self.tallies[k] = self.tallies.get(k, 0) + n

    def check(self, cond, mech, detail="", case=None, owner=None):
        if not cond:
            self.violation(mech, detail() if callable(detail) else detail, case)
        return bool(cond)

    def violation(self, mech, detail, case=None, owner=None):
        if len(self.viol) < 20:
            self.viol.append(dict(mechanism=mech, detail=str(detail)[:400], case={k: v for k, v in (case or {}).items() if k in ("cfg_key", "index", "start_method")}))

    def nontrivial(self, *a):
        pass

    def ev(self, n=1):
        self.tally("ev", n)


def main():
    warnings.filterwarnings("ignore")
    method = sys.argv[1]
    specs = json.load(sys.stdin)
    import multiprocessing

    multiprocessing.set_start_method(method, force=True)
    from maze_dataset import MazeDataset, MazeDatasetConfig
    from maze_dataset.generation.generators import GENERATORS_MAP
    from vmon.props.c03 import check_item

    ctx = MiniCtx()
    for sp in specs:
        opts = {k: ([tuple(x) for x in v] if isinstance(v, list) else v) for k, v in sp["opts"].items()}
        cfg = MazeDatasetConfig(name=sp["name"], grid_n=sp["grid_n"], n_mazes=sp["n_mazes"], maze_ctor=GENERATORS_MAP[sp["gen"]],
                                maze_ctor_kwargs=dict(sp["kwargs"]), endpoint_kwargs=dict(opts), seed=sp["seed"])
        try:
            ds = MazeDataset.generate(cfg, gen_parallel=True, pool_kwargs=dict(processes=sp["processes"]))
        except ValueError as e:
            ctx.tally("rejected:ValueError")
            continue
        except Exception as e:  # noqa: BLE001
            ctx.violation(f"C03/generate/exception/{type(e).__name__}", repr(e)[:300], dict(cfg_key=sp["name"], start_method=method))
            continue
        ctx.tally("datasets")
        ctx.check(len(ds) == sp["n_mazes"], "C03/wrong-number-of-mazes", f"len={len(ds)} configured {sp['n_mazes']} (start method {method})", dict(cfg_key=sp["name"], start_method=method))
        for i in range(len(ds)):
            check_item(ctx, ds[i], sp["grid_n"], opts, dict(cfg_key=sp["name"], index=i, start_method=method))
    print(json.dumps(dict(tallies=ctx.tallies, violations=ctx.viol)))


if __name__ == "__main__":
    main()
