"""Fan a property check out over shard subprocesses, merge, classify, write evidence."""

from __future__ import annotations

import fnmatch
import hashlib
import importlib
import json
import os
import shutil
import subprocess
import sys
import tempfile
import time

from .core import VERIF_ROOT

PY = "/venv/bin/python"
REPO = os.environ.get("VMON_REPO", "/repo")
WATCHDOG = {"quick": 30 * 60, "thorough": 180 * 60}


def load_known():
    p = os.path.join(VERIF_ROOT, "known_findings.json")
    if not os.path.exists(p):
        return []
    with open(p) as f:
        data = json.load(f)
    return [k for k in data.get("findings", []) if k.get("status", "known") == "known"]


def shard_env(extra=None):
    env = dict(os.environ)
    env["PYTHONPATH"] = VERIF_ROOT + os.pathsep + REPO
    env["PYTHONDONTWRITEBYTECODE"] = "1"
    env["MPLBACKEND"] = "Agg"
    env["PYTHONHASHSEED"] = os.environ.get("VMON_HASHSEED", "0")
    env["PYTHONWARNINGS"] = "ignore"
    env["VMON_REPO"] = REPO
    env["OMP_NUM_THREADS"] = "1"
    env["MKL_NUM_THREADS"] = "1"
    env["OPENBLAS_NUM_THREADS"] = "1"
    env["TQDM_DISABLE"] = "1"
    if extra:
        env.update(extra)
    return env


def run_check(prop: str, tier: str, seed: int, only_shard: int | None = None, nshards_override: int | None = None,
              write_evidence: bool = True, quiet: bool = False) -> int:
    t0 = time.time()
    mod = importlib.import_module(f"vmon.props.{prop.lower()}")
    nshards = nshards_override or getattr(mod, "NSHARDS", {}).get(tier, 16)
    work = tempfile.mkdtemp(prefix=f"vmon-{prop}-")
    procs = []
    shards = range(nshards) if only_shard is None else [only_shard]
    try:
        for s in shards:
            out = os.path.join(work, f"shard{s}.json")
            log = open(os.path.join(work, f"shard{s}.log"), "w")
            # every shard runs under its own (deterministic) string-hash seed, so that behaviour depending on set/dict-of-str
            # iteration order is exercised under 16 different orders; VMON_HASHSEED pins one value for all shards
            hs = os.environ.get("VMON_HASHSEED") or str(0 if s == 0 else (seed * 1000003 + s * 7919 + 1) % 4294967295)
            env = shard_env(dict(VMON_WORK=os.path.join(work, f"w{s}"), PYTHONHASHSEED=hs))
            os.makedirs(env["VMON_WORK"], exist_ok=True)
            # environment diversity: a property module may ask for its last shard to run in an interpreter started with -O
            # (assert statements not executed) - valid inputs must be handled the same way there
            opt = ["-O"] if ((getattr(mod, "OPTIMISED_LAST_SHARD", True) and not os.environ.get("VMON_NO_O")) and s == nshards - 1 and nshards > 1) else []
            p = subprocess.Popen([PY, *opt, "-m", "vmon.worker", prop, tier, str(seed), str(s), str(nshards), out],
                                 cwd=VERIF_ROOT, env=env, stdout=log, stderr=subprocess.STDOUT)
            procs.append((s, p, out, log))
        deadline = t0 + WATCHDOG[tier]
        dead = []
        for s, p, out, log in procs:
            try:
                rc = p.wait(timeout=max(1, deadline - time.time()))
            except subprocess.TimeoutExpired:
                p.kill()
                p.wait()
                rc = -9
            log.close()
            if rc != 0 or not os.path.exists(out):
                tail = ""
                try:
                    with open(log.name) as f:
                        tail = f.read()[-1500:]
                except OSError:
                    pass
                dead.append((s, rc, tail))
        merged = merge(prop, tier, seed, nshards, [(s, out) for s, _p, out, _l in procs], dead)
    finally:
        shutil.rmtree(work, ignore_errors=True)
    return finish(mod, prop, tier, seed, merged, time.time() - t0, write_evidence, quiet)


def merge(prop, tier, seed, nshards, outs, dead):
    import numpy as np

    m = dict(evaluations=0, tallies={}, samples=[], violations=[], viol_counts={}, ambient=[], notes=[],
             anchor_hits={}, anchor_lines={}, shard_wall=[], dead=dead, nshards=nshards)
    digs = []
    for s, out in outs:
        if not os.path.exists(out):
            continue
        with open(out) as f:
            d = json.load(f)
        m["evaluations"] += d["evaluations"]
        for k, v in d["tallies"].items():
            m["tallies"][k] = m["tallies"].get(k, 0) + v
        for k, v in d["viol_counts"].items():
            m["viol_counts"][k] = m["viol_counts"].get(k, 0) + v
        if len(m["samples"]) < 6:
            m["samples"].extend(d["samples"][:2])
        m["violations"].extend(d["violations"])
        m["ambient"].extend(d["ambient"])
        m["notes"].extend(d["notes"])
        m["shard_wall"].append(round(d["wall_s"], 1))
        if os.path.exists(out + ".dig"):
            digs.append(np.fromfile(out + ".dig", dtype=np.uint64))
        if os.path.exists(out + ".probe"):
            with open(out + ".probe") as f:
                pr = json.load(f)
            for k, v in pr.get("anchor_hits", {}).items():
                m["anchor_hits"][k] = m["anchor_hits"].get(k, 0) + v
            for k, v in pr.get("anchor_lines", {}).items():
                cur = m["anchor_lines"].setdefault(k, dict(hit=set(), total=v["total"], all=set(v["hit"]) | set(v["missed"])))
                cur["hit"] |= set(v["hit"])
    m["distinct"] = int(len(np.unique(np.concatenate(digs)))) if digs else 0
    for k, v in m["anchor_lines"].items():
        m["anchor_lines"][k] = dict(executed=len(v["hit"]), total=v["total"], missed=sorted(v["all"] - v["hit"]))
    return m


def finish(mod, prop, tier, seed, m, wall, write_evidence, quiet) -> int:
    known = [k for k in load_known() if k["property"] == prop]
    level = getattr(mod, "LEVEL", "exploration")
    extra_cov, extra_inconclusive = {}, []
    if hasattr(mod, "finalize"):
        # verdicts that need the merged observations of all shards (e.g. a chi-square over pooled counts)
        try:
            fin = mod.finalize(m, tier, seed) or {}
        except Exception as e:  # noqa: BLE001
            import traceback
            fin = dict(inconclusive=[f"finalize crashed: {type(e).__name__}: {e} {traceback.format_exc()[-600:]}"])
        for v in fin.get("violations", []):
            rec = dict(property=prop, mechanism=v["mechanism"], detail=str(v.get("detail", ""))[:3000], case=v.get("case"),
                       shard=-1, nshards=m["nshards"], tier=tier, seed=seed)
            m["violations"].append(rec)
            m["viol_counts"][v["mechanism"]] = m["viol_counts"].get(v["mechanism"], 0) + 1
        extra_inconclusive = list(fin.get("inconclusive", []))
        extra_cov = dict(fin.get("coverage", {}))
    unlisted, listed = [], {}
    for v in m["violations"]:
        hit = None
        for k in known:
            if fnmatch.fnmatchcase(v["mechanism"], k["mechanism"]):
                hit = k
                break
        if hit is None:
            unlisted.append(v)
        else:
            listed.setdefault(hit["mechanism"], (hit, []))[1].append(v)

    inconclusive = list(extra_inconclusive)
    for s, rc, tail in m["dead"]:
        inconclusive.append(f"shard {s} died/timed out rc={rc}: {tail[-400:]!r}")
    if m["tallies"].get("shard-crash"):
        inconclusive.append("a shard crashed: " + " | ".join(n for n in m["notes"] if "crashed" in n)[:1500])
    if m["tallies"].get("ambient:monitor-crash"):
        inconclusive.append("an ambient monitor crashed: " + " | ".join(n for n in m["notes"] if "monitor crashed" in n)[:800])
    thresholds = getattr(mod, "THRESHOLDS", {}).get(tier, {})
    for key, mn in thresholds.items():
        if "?" in key:
            # "<what>?<flag>": enforced only when the tally <flag> is positive (e.g. a probe on a private helper could be attached)
            key, flag = key.split("?", 1)
            if m["tallies"].get(flag, 0) <= 0:
                continue
        if key == "__evaluations__":
            got = m["evaluations"]
        elif key == "__distinct__":
            got = m["distinct"]
        elif key.startswith("hits:"):
            nm = key[5:]
            got = sum(v for k, v in m["anchor_hits"].items() if k == nm or k.endswith(":" + nm) or k.endswith("." + nm))
        else:
            got = m["tallies"].get(key, 0)
        if got < mn:
            inconclusive.append(f"threshold not met: {key} = {got} < {mn}")
    for key, v in m["tallies"].items():
        if key.startswith("timeout:"):
            inconclusive.append(f"per-call watchdog fired {v}x: {key[8:]} (a call did not return within its generous wall-clock budget)")
    # anchored functions that no longer exist under their old name (e.g. a private helper removed by a refactoring) only cost
    # the coverage figures for that function; the oracles judge behaviour at public observation points.  Reported, not judged.
    anchors_unresolved = sorted({n.split(" not resolvable")[0].replace("anchor ", "") for n in m["notes"] if n.startswith("anchor ") and "not resolvable" in n})

    replays = []
    if unlisted:
        rdir = os.path.join(VERIF_ROOT, "replays")
        os.makedirs(rdir, exist_ok=True)
        seen_mech = set()
        for v in unlisted:
            if v["mechanism"] in seen_mech:
                continue
            seen_mech.add(v["mechanism"])
            h = hashlib.sha256(v["mechanism"].encode()).hexdigest()[:8]
            path = os.path.join(rdir, f"{prop}-{h}.json")
            with open(path, "w") as f:
                json.dump(v, f, indent=1)
            replays.append((v, path))

    samples = m["samples"][:6] or [{"note": "no sample recorded"}]
    cov = dict(
        evaluations=int(m["evaluations"]),
        distinct_nontrivial=int(m["distinct"]),
        rule=getattr(mod, "RULE", ""),
        samples=samples,
        exhaustive=bool(getattr(mod, "EXHAUSTIVE", {}).get(tier, False)),
        tallies=dict(sorted(m["tallies"].items())),
        anchor_hits=m["anchor_hits"],
        anchor_lines=m["anchor_lines"],
        anchors_unresolved=anchors_unresolved,
        thresholds=thresholds,
        verdict=("violated" if unlisted else ("inconclusive" if inconclusive else "held-on-observed")),
        inconclusive_reasons=inconclusive,
        known_findings_seen=[dict(mechanism=k, what=h["what"], occurrences=m["viol_counts"].get(vs[0]["mechanism"], len(vs)))
                             for k, (h, vs) in listed.items()],
        violation_mechanisms={k: v for k, v in m["viol_counts"].items()},
        ambient_notes=[dict(property=a["property"], mechanism=a["mechanism"], detail=a["detail"][:300]) for a in m["ambient"][:10]],
        shards=m["nshards"],
        shard_wall_s=m["shard_wall"],
        notes=m["notes"][:10],
    )
    cov.update(extra_cov)
    ev = dict(
        property_id=prop, tier=tier, seed=int(seed), level=level, coverage=cov,
        assumptions=list(getattr(mod, "ASSUMPTIONS", [])),
        wall_s=round(wall, 2), violations=len(unlisted),
    )
    if write_evidence:
        edir = os.path.join(VERIF_ROOT, "evidence")
        os.makedirs(edir, exist_ok=True)
        try:
            import jsonschema

            with open("/root/.vp/EVIDENCE.schema.json") as f:
                jsonschema.validate(ev, json.load(f))
        except FileNotFoundError:
            pass
        except Exception as e:  # noqa: BLE001
            inconclusive.append(f"evidence does not validate: {str(e)[:300]}")
        tmp = os.path.join(edir, f"{prop}.json.tmp")
        with open(tmp, "w") as f:
            json.dump(ev, f, indent=1, sort_keys=False)
        os.replace(tmp, os.path.join(edir, f"{prop}.json"))

    if not quiet:
        print(f"[{prop}] tier={tier} seed={seed} evaluations={m['evaluations']} distinct_nontrivial={m['distinct']} "
              f"wall={wall:.1f}s shards={m['nshards']}")
        key_t = {k: v for k, v in m["tallies"].items() if not k.startswith("rejected:")}
        print(f"[{prop}] tallies: " + ", ".join(f"{k}={v}" for k, v in sorted(key_t.items())[:60]))
        if m["anchor_hits"]:
            print(f"[{prop}] anchor hits: " + ", ".join(f"{k.split(':')[-1]}={v}" for k, v in sorted(m["anchor_hits"].items())))
        for k, v in sorted(m["anchor_lines"].items()):
            print(f"[{prop}] lines {k.split(':')[-1]}: {v['executed']}/{v['total']} missed={v['missed'][:12]}")
        for a in m["ambient"][:5]:
            print(f"[{prop}] ambient note (owner {a['property']}): {a['mechanism']}")
    for k, (h, vs) in listed.items():
        print(f"KNOWN-FINDING: property={prop} {h['what']} [mechanism {vs[0]['mechanism']}, seen {m['viol_counts'].get(vs[0]['mechanism'], len(vs))}x]")
    for v, path in replays:
        print(f"VIOLATION property={prop} replay={path}")
        print(f"  mechanism: {v['mechanism']} (x{m['viol_counts'].get(v['mechanism'], 1)})")
        print("  detail: " + v["detail"][:1200].replace("\n", "\n    "))
    if unlisted:
        return 1
    if inconclusive:
        for r in inconclusive:
            print(f"INCONCLUSIVE property={prop} {r}")
        return 2
    print(f"[{prop}] held on everything observed")
    return 0


def replay(prop: str, path: str) -> int:
    with open(path) as f:
        v = json.load(f)
    print(f"replaying shard {v['shard']}/{v['nshards']} tier={v['tier']} seed={v['seed']} looking for {v['mechanism']}")
    rc = run_check(prop, v["tier"], v["seed"], only_shard=(v["shard"] if v["shard"] >= 0 else None), nshards_override=v["nshards"],
                   write_evidence=False)
    return rc
