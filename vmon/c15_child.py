"""fresh-process side of C15: names and hashes of tokenizers built from parameter dicts"""
from __future__ import annotations

import json
import sys
import warnings


def main():
    warnings.filterwarnings("ignore")
    params = json.load(sys.stdin)
    from vmon import tokspace as ts

    out = []
    for p in params:
        p = dict(p, coord=(p["coord"] if p["coord"] == "UT" else tuple(p["coord"])), steps=tuple(p["steps"]))
        t = ts.build_tokenizer(p)
        out.append([t.name, str(hash(t)), str(t.hash_int()), t.hash_b64()])
    json.dump(out, sys.stdout)


if __name__ == "__main__":
    main()
