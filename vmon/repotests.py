"""Run the repository's own unit tests, unedited, with the ambient monitors attached (DESIGN section 4),
and adopt what the monitors saw for the property that owns it."""
from __future__ import annotations

import glob
import json
import os
import shutil
import subprocess

from .core import VERIF_ROOT
from .runner import PY, REPO, shard_env


def run_under_monitors(ctx, paths=("tests/unit",), jobs=6, timeout=900):
    out = os.path.join(ctx.work, "repotests")
    os.makedirs(out, exist_ok=True)
    env = shard_env(dict(VMON_PLUGIN_OUT=out, VERIF_SEED=str(ctx.seed)))
    cmd = [PY, "-m", "pytest", *paths, "-q", "-p", "no:cacheprovider", "-p", "vmon.pytest_plugin", "-n", str(jobs), "--timeout=150",
           "-o", "addopts=", "--basetemp", os.path.join(out, "tmp")]
    try:
        p = subprocess.run(cmd, cwd=REPO, env=env, capture_output=True, text=True, timeout=timeout)
    except subprocess.TimeoutExpired:
        # the ride-along is supplementary traffic for the ambient monitors: if the repository's tests stall (their pool-based
        # test occasionally does on a loaded machine) it is recorded and the direct workloads decide alone
        ctx.tally("repotests:timed-out(not judged)")
        ctx.note("repository unit tests under monitors did not finish within the time limit; not used")
        return
    tail = [ln for ln in p.stdout.splitlines() if " passed" in ln or " failed" in ln or " error" in ln]
    ctx.note(f"repository unit tests under ambient monitors: rc={p.returncode} {tail[-1] if tail else p.stdout[-200:]}")
    ctx.tally("repotests:runs")
    ctx.tally(f"repotests:pytest-rc:{p.returncode}")
    n_files = 0
    for f in glob.glob(os.path.join(out, "ambient-*.json")):
        n_files += 1
        with open(f) as fh:
            d = json.load(fh)
        for k, v in d["tallies"].items():
            if k.startswith("ambient:"):
                ctx.tally("repotests:" + k, v)
        for a in d.get("ambient", []):
            ctx.violation(a["mechanism"], "[seen inside the repository's own unit tests] " + a["detail"], a.get("case"), owner=a["property"])
    ctx.tally("repotests:monitor-reports", n_files)
    shutil.rmtree(out, ignore_errors=True)
