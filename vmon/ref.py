"""Independent reference models.  Never imports maze_dataset.

Conventions (from the property statements / class docstring of LatticeMaze):
  connection_list[0, r, c]  <=> cell (r, c) connected to (r+1, c)   ("down")
  connection_list[1, r, c]  <=> cell (r, c) connected to (r, c+1)   ("right")
"""

from __future__ import annotations

from collections import deque
from itertools import product

import numpy as np


class Graph:
    """adjacency-set model of a connection structure"""

    __slots__ = ("cl", "R", "C", "adj", "_comp", "_ncomp")

    def __init__(self, cl: np.ndarray):
        cl = np.asarray(cl)
        assert cl.ndim == 3 and cl.shape[0] == 2, cl.shape
        self.cl = cl
        self.R, self.C = int(cl.shape[1]), int(cl.shape[2])
        adj: dict[tuple[int, int], list[tuple[int, int]]] = {
            (r, c): [] for r in range(self.R) for c in range(self.C)
        }
        R, C = self.R, self.C
        d0 = np.argwhere(cl[0])
        for r, c in d0:
            r = int(r); c = int(c)
            if r + 1 < R:
                adj[(r, c)].append((r + 1, c))
                adj[(r + 1, c)].append((r, c))
        d1 = np.argwhere(cl[1])
        for r, c in d1:
            r = int(r); c = int(c)
            if c + 1 < C:
                adj[(r, c)].append((r, c + 1))
                adj[(r, c + 1)].append((r, c))
        self.adj = adj
        self._comp = None
        self._ncomp = None

    # -- well-formedness ----------------------------------------------------
    def boundary_ok(self) -> bool:
        return not self.cl[0, -1, :].any() and not self.cl[1, :, -1].any()

    def n_edges(self) -> int:
        return sum(len(v) for v in self.adj.values()) // 2

    def edges(self) -> set[frozenset]:
        return {frozenset((a, b)) for a, nb in self.adj.items() for b in nb}

    def has_edge(self, a, b) -> bool:
        return tuple(b) in self.adj.get(tuple(a), ())

    def in_grid(self, a) -> bool:
        return 0 <= a[0] < self.R and 0 <= a[1] < self.C

    def degree(self, a) -> int:
        return len(self.adj[tuple(a)])

    # -- components ---------------------------------------------------------
    def components(self) -> dict[tuple[int, int], int]:
        if self._comp is None:
            comp = {}
            k = 0
            for s in self.adj:
                if s in comp:
                    continue
                comp[s] = k
                dq = deque([s])
                while dq:
                    u = dq.popleft()
                    for v in self.adj[u]:
                        if v not in comp:
                            comp[v] = k
                            dq.append(v)
                k += 1
            self._comp = comp
            self._ncomp = k
        return self._comp

    def n_components(self) -> int:
        self.components()
        return self._ncomp

    def component_of(self, a) -> set[tuple[int, int]]:
        comp = self.components()
        k = comp[tuple(a)]
        return {c for c, kk in comp.items() if kk == k}

    def connected(self) -> bool:
        return self.n_components() == 1

    def is_spanning_tree(self) -> bool:
        return self.boundary_ok() and self.n_edges() == self.R * self.C - 1 and self.connected()

    def cyclomatic(self) -> int:
        return self.n_edges() - self.R * self.C + self.n_components()

    # -- distances ----------------------------------------------------------
    def bfs(self, s) -> dict[tuple[int, int], int]:
        s = tuple(s)
        dist = {s: 0}
        dq = deque([s])
        while dq:
            u = dq.popleft()
            for v in self.adj[u]:
                if v not in dist:
                    dist[v] = dist[u] + 1
                    dq.append(v)
        return dist

    def shortest_path(self, s, e, rng=None):
        """a shortest path s..e (random tie-break with rng) or None"""
        s = tuple(s); e = tuple(e)
        dist = self.bfs(e)
        if s not in dist:
            return None
        path = [s]
        cur = s
        while cur != e:
            nxt = [v for v in self.adj[cur] if dist.get(v, 1 << 30) == dist[cur] - 1]
            cur = nxt[int(rng.integers(len(nxt)))] if (rng is not None and len(nxt) > 1) else nxt[0]
            path.append(cur)
        return path

    def n_shortest_paths(self, s, e, cap=1000) -> int:
        s = tuple(s); e = tuple(e)
        dist = self.bfs(s)
        if e not in dist:
            return 0
        order = sorted(dist, key=dist.get)
        cnt = {s: 1}
        for u in order:
            if u == s:
                continue
            cnt[u] = min(cap, sum(cnt[v] for v in self.adj[u] if dist.get(v, -5) == dist[u] - 1))
        return cnt[e]

    def path_problems(self, path, s=None, e=None) -> str | None:
        """None if `path` is a walk along edges inside the grid (from s to e if given)"""
        p = [tuple(int(x) for x in c) for c in path]
        if len(p) == 0:
            return "empty path"
        if s is not None and p[0] != tuple(s):
            return f"starts at {p[0]} not {tuple(s)}"
        if e is not None and p[-1] != tuple(e):
            return f"ends at {p[-1]} not {tuple(e)}"
        for c in p:
            if not self.in_grid(c):
                return f"cell {c} outside grid"
        for a, b in zip(p[:-1], p[1:]):
            if b not in self.adj[a]:
                return f"step {a}->{b} is not a connection"
        return None


# ---------------------------------------------------------------------------
# construction helpers (harness-side generators; independent of the library)
# ---------------------------------------------------------------------------


def empty_cl(R: int, C: int) -> np.ndarray:
    return np.zeros((2, R, C), dtype=bool)


def lattice_edge_slots(R: int, C: int) -> list[tuple[int, int, int]]:
    """all (d, r, c) index triples that denote a real lattice edge"""
    out = []
    for r in range(R):
        for c in range(C):
            if r + 1 < R:
                out.append((0, r, c))
            if c + 1 < C:
                out.append((1, r, c))
    return out


def cl_from_mask(R: int, C: int, mask: int, slots=None) -> np.ndarray:
    slots = slots or lattice_edge_slots(R, C)
    cl = empty_cl(R, C)
    for i, (d, r, c) in enumerate(slots):
        if (mask >> i) & 1:
            cl[d, r, c] = True
    return cl


def full_cl(R: int, C: int) -> np.ndarray:
    cl = np.ones((2, R, C), dtype=bool)
    cl[0, -1, :] = False
    cl[1, :, -1] = False
    return cl


def slot_of(a, b) -> tuple[int, int, int]:
    """index triple storing the edge between adjacent cells a, b"""
    a = tuple(a); b = tuple(b)
    lo = min(a, b)
    d = 0 if a[1] == b[1] else 1
    return (d, lo[0], lo[1])


def random_spanning_tree(R: int, C: int, rng) -> np.ndarray:
    """Kruskal on random weights"""
    slots = lattice_edge_slots(R, C)
    order = rng.permutation(len(slots))
    parent = list(range(R * C))

    def find(x):
        while parent[x] != x:
            parent[x] = parent[parent[x]]
            x = parent[x]
        return x

    cl = empty_cl(R, C)
    for i in order:
        d, r, c = slots[int(i)]
        a = r * C + c
        b = (r + 1) * C + c if d == 0 else r * C + c + 1
        ra, rb = find(a), find(b)
        if ra != rb:
            parent[ra] = rb
            cl[d, r, c] = True
    return cl


def bernoulli_cl(R: int, C: int, p: float, rng) -> np.ndarray:
    cl = rng.random((2, R, C)) < p
    cl[0, -1, :] = False
    cl[1, :, -1] = False
    return cl


def tree_plus(R: int, C: int, k: int, rng) -> np.ndarray:
    cl = random_spanning_tree(R, C, rng)
    free = [s for s in lattice_edge_slots(R, C) if not cl[s]]
    if free:
        for i in rng.permutation(len(free))[:k]:
            cl[free[int(i)]] = True
    return cl


def serpentine(R: int, C: int) -> np.ndarray:
    cl = empty_cl(R, C)
    for r in range(R):
        for c in range(C - 1):
            cl[1, r, c] = True
        if r + 1 < R:
            cl[0, r, (C - 1) if r % 2 == 0 else 0] = True
    return cl


def comb(R: int, C: int) -> np.ndarray:
    cl = empty_cl(R, C)
    for c in range(C - 1):
        cl[1, 0, c] = True
    for c in range(C):
        for r in range(R - 1):
            cl[0, r, c] = True
    return cl


def ring(R: int, C: int) -> np.ndarray:
    """outer ring only (two routes between any two ring cells); interior isolated"""
    cl = empty_cl(R, C)
    for c in range(C - 1):
        cl[1, 0, c] = True
        cl[1, R - 1, c] = True
    for r in range(R - 1):
        cl[0, r, 0] = True
        cl[0, r, C - 1] = True
    return cl


def spiral(R: int, C: int) -> np.ndarray:
    cl = empty_cl(R, C)
    seen = np.zeros((R, C), dtype=bool)
    r = c = 0
    dr, dc = 0, 1
    seen[0, 0] = True
    for _ in range(R * C - 1):
        nr, nc = r + dr, c + dc
        if not (0 <= nr < R and 0 <= nc < C) or seen[nr, nc]:
            dr, dc = dc, -dr
            nr, nc = r + dr, c + dc
            if not (0 <= nr < R and 0 <= nc < C) or seen[nr, nc]:
                break
        cl[slot_of((r, c), (nr, nc))] = True
        seen[nr, nc] = True
        r, c = nr, nc
    return cl


def wall_two_routes(R: int, C: int) -> np.ndarray:
    """full lattice minus a vertical wall in the middle column with a gap at the bottom only,
    plus a longer detour through the top row removed -> A* must go against the heuristic"""
    cl = full_cl(R, C)
    m = C // 2
    if m >= 1:
        for r in range(R - 1):
            cl[1, r, m - 1] = False
    return cl


def deadend_pockets(R: int, C: int, rng) -> np.ndarray:
    """spanning tree + a few extra edges, then cut edges next to the goal corner"""
    cl = tree_plus(R, C, max(1, (R * C) // 6), rng)
    return cl


def two_lanes(n: int, transpose: bool = False, breaks: int = 2, toll: int = 1):
    """3 x n maze hostile to inadmissible ('weighted') heuristics: from s=(1,1) to e=(1,n-3) the *optimal* route first steps away from
    the straight line (`toll` rows of detour: up to lane 0, along it, down again = manhattan + 2) while the straight lane 1 is broken
    `breaks` times close to e and each break must be walked around through row 2 (+2 steps each).  A best-first search whose
    heuristic over-estimates by a factor 1+eps prefers the straight lane as soon as eps * manhattan > 2 * (breaks - 1).
    returns (cl, s, e)"""
    cl = np.zeros((2, 3, n), dtype=bool)
    c_s, c_e = 1, n - 3
    cl[1, 0, c_s:c_e] = True
    cl[0, 0, c_s] = True
    cl[0, 0, c_e] = True
    cl[1, 1, c_s:c_e] = True
    for i in range(breaks):
        brk = c_e - 4 - 3 * i
        if brk <= c_s + 1:
            break
        cl[1, 1, brk] = False
        cl[0, 1, brk] = True
        cl[1, 2, brk] = True
        cl[0, 1, brk + 1] = True
    s, e = (1, c_s), (1, c_e)
    if transpose:
        t = np.zeros((2, n, 3), dtype=bool)
        t[0] = cl[1].T
        t[1] = cl[0].T
        return t, (s[1], s[0]), (e[1], e[0])
    return cl, s, e


ADVERSARIAL = {
    "serpentine": lambda R, C, rng: serpentine(R, C),
    "comb": lambda R, C, rng: comb(R, C),
    "ring": lambda R, C, rng: ring(R, C),
    "spiral": lambda R, C, rng: spiral(R, C),
    "wall": lambda R, C, rng: wall_two_routes(R, C),
    "full": lambda R, C, rng: full_cl(R, C),
    "pockets": deadend_pockets,
}


def random_structure(R: int, C: int, rng, family: str | None = None):
    """returns (family, cl)"""
    fams = ["tree", "cyc1", "cyc3", "cycN", "perc2", "perc4", "perc6", "perc8", "full", "empty",
            "serpentine", "comb", "ring", "spiral", "wall"]
    if family is None:
        family = fams[int(rng.integers(len(fams)))]
    if family == "tree":
        return family, random_spanning_tree(R, C, rng)
    if family == "cyc1":
        return family, tree_plus(R, C, 1, rng)
    if family == "cyc3":
        return family, tree_plus(R, C, 3, rng)
    if family == "cycN":
        return family, tree_plus(R, C, max(1, R * C // 4), rng)
    if family.startswith("perc"):
        return family, bernoulli_cl(R, C, int(family[4:]) / 10.0, rng)
    if family == "empty":
        return family, empty_cl(R, C)
    return family, ADVERSARIAL[family](R, C, rng)


EXH_SHAPES = [(1, 1), (1, 2), (2, 1), (1, 3), (3, 1), (1, 4), (4, 1), (1, 5), (5, 1), (2, 2),
              (2, 3), (3, 2), (1, 7), (2, 4), (4, 2), (3, 3)]
"grids with <= 12 lattice edges whose 2^edges structures are enumerated exhaustively"


def all_structures(R: int, C: int):
    slots = lattice_edge_slots(R, C)
    for mask in range(1 << len(slots)):
        yield mask, cl_from_mask(R, C, mask, slots)


def all_cells(R: int, C: int):
    return [(r, c) for r in range(R) for c in range(C)]


# ---------------------------------------------------------------------------
# spanning trees (C19)
# ---------------------------------------------------------------------------


def spanning_tree_masks(R: int, C: int) -> list[int]:
    """masks (over lattice_edge_slots order) of all spanning trees; by brute force over
    edge subsets of size RC-1 with union-find pruning (fine up to 3x4)"""
    slots = lattice_edge_slots(R, C)
    n = R * C
    ends = []
    for d, r, c in slots:
        a = r * C + c
        b = (r + 1) * C + c if d == 0 else r * C + c + 1
        ends.append((a, b))
    out = []

    def rec(i, chosen, mask, parent):
        if chosen == n - 1:
            out.append(mask)
            return
        if i == len(slots) or (len(slots) - i) < (n - 1 - chosen):
            return
        # include edge i if it joins two components
        a, b = ends[i]

        def find(p, x):
            while p[x] != x:
                x = p[x]
            return x

        ra, rb = find(parent, a), find(parent, b)
        if ra != rb:
            p2 = list(parent)
            p2[ra] = rb
            rec(i + 1, chosen + 1, mask | (1 << i), p2)
        rec(i + 1, chosen, mask, parent)

    rec(0, 0, 0, list(range(n)))
    return out


def kirchhoff_count(R: int, C: int) -> int:
    """number of spanning trees of the RxC grid via the matrix-tree theorem (exact, Fractions)"""
    from fractions import Fraction

    n = R * C
    L = [[Fraction(0)] * n for _ in range(n)]
    for r in range(R):
        for c in range(C):
            a = r * C + c
            for (rr, cc) in ((r + 1, c), (r, c + 1)):
                if rr < R and cc < C:
                    b = rr * C + cc
                    L[a][a] += 1; L[b][b] += 1
                    L[a][b] -= 1; L[b][a] -= 1
    M = [row[1:] for row in L[1:]]
    m = n - 1
    det = Fraction(1)
    for i in range(m):
        piv = None
        for j in range(i, m):
            if M[j][i] != 0:
                piv = j
                break
        if piv is None:
            return 0
        if piv != i:
            M[i], M[piv] = M[piv], M[i]
            det = -det
        det *= M[i][i]
        for j in range(i + 1, m):
            if M[j][i] != 0:
                f = M[j][i] / M[i][i]
                for k in range(i, m):
                    M[j][k] -= f * M[i][k]
    return int(det)


def mask_of_cl(cl: np.ndarray) -> int:
    R, C = cl.shape[1:]
    m = 0
    for i, s in enumerate(lattice_edge_slots(R, C)):
        if cl[s]:
            m |= 1 << i
    return m


# ---------------------------------------------------------------------------
# pixel / ascii oracle (C10, C17) — written from the property statement
# ---------------------------------------------------------------------------

WALL = (0, 0, 0)
OPEN = (255, 255, 255)
START = (0, 255, 0)
END = (255, 0, 0)
PATH = (0, 0, 255)
ASCII_OF = {WALL: "#", OPEN: " ", START: "S", END: "E", PATH: "X"}


def pixels(cl, start=None, end=None, solution=None, show_endpoints=True, show_solution=True) -> np.ndarray:
    """expected (2R+1)x(2C+1)x3 image.  start/end None for an untargeted maze, solution None unless solved."""
    R, C = cl.shape[1:]
    img = np.zeros((2 * R + 1, 2 * C + 1, 3), dtype=np.uint8)
    for r in range(R):
        for c in range(C):
            img[2 * r + 1, 2 * c + 1] = OPEN
            if r + 1 < R and cl[0, r, c]:
                img[2 * r + 2, 2 * c + 1] = OPEN
            if c + 1 < C and cl[1, r, c]:
                img[2 * r + 1, 2 * c + 2] = OPEN
    if solution is not None and show_solution:
        sol = [tuple(int(x) for x in p) for p in solution]
        for p in sol:
            img[2 * p[0] + 1, 2 * p[1] + 1] = PATH
        for a, b in zip(sol[:-1], sol[1:]):
            img[a[0] + b[0] + 1, a[1] + b[1] + 1] = PATH
    if start is not None and show_endpoints:
        img[2 * int(start[0]) + 1, 2 * int(start[1]) + 1] = START
        img[2 * int(end[0]) + 1, 2 * int(end[1]) + 1] = END
    return img


def ascii_of(img: np.ndarray) -> str:
    return "\n".join("".join(ASCII_OF.get(tuple(int(v) for v in px), "?") for px in row) for row in img)


def raster_pair(cl, solution, remove_isolated_cells=True, extend_pixels=True, endpoints_as_open=False):
    """expected (input, target) images of C17; returns (inp, tgt, amb_inp, amb_tgt) where the amb masks (pixels not judged) are
    all-False since the isolated-pixel rule is read from the option's own documentation (see below)"""
    sol = [tuple(int(x) for x in p) for p in solution]
    s, e = sol[0], sol[-1]
    inp = pixels(cl, s, e, None, True, False)
    tgt = np.zeros_like(inp)
    for p in sol:
        tgt[2 * p[0] + 1, 2 * p[1] + 1] = OPEN
    for a, b in zip(sol[:-1], sol[1:]):
        tgt[a[0] + b[0] + 1, a[1] + b[1] + 1] = OPEN
    tgt[2 * s[0] + 1, 2 * s[1] + 1] = OPEN if endpoints_as_open else START
    tgt[2 * e[0] + 1, 2 * e[1] + 1] = OPEN if endpoints_as_open else END
    outs = []
    for img in (inp, tgt):
        amb = np.zeros(img.shape[:2], dtype=bool)
        if remove_isolated_cells:
            nonwall = (img != 0).any(axis=-1)
            strict_open = (img == 255).all(axis=-1)
            H, W = nonwall.shape

            def isolated(mask_self, mask_nb):
                pad = np.pad(mask_nb, 1, constant_values=False)
                has_nb = pad[1:-1, 2:] | pad[1:-1, :-2] | pad[2:, 1:-1] | pad[:-2, 1:-1]
                return mask_self & ~has_nb

            # "does exactly what it says": the option's own documentation (docstring of _remove_isolated_cells) says "an isolated
            # cell is a cell that is surrounded by walls on all sides" - i.e. a non-wall pixel all of whose 4-neighbours are wall
            # (outside counts as wall).  Coloured start/end pixels are non-wall on both sides of that rule.
            iso_a = isolated(nonwall, nonwall)
            img = img.copy()
            img[iso_a] = WALL
        if extend_pixels:
            img = np.repeat(np.repeat(img, 2, axis=0), 2, axis=1)
            img = np.pad(img, ((1, 1), (1, 1), (0, 0)), constant_values=0)
            amb = np.pad(np.repeat(np.repeat(amb, 2, axis=0), 2, axis=1), 1, constant_values=False)
        outs.append((img, amb))
    return outs[0][0], outs[1][0], outs[0][1], outs[1][1]
