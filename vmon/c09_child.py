"""fresh-process side of C09: build mazes from specs, optionally hash them (sets/dicts), pickle them to the given file"""
from __future__ import annotations

import json
import pickle
import sys
import warnings

import numpy as np


def main():
    warnings.filterwarnings("ignore")
    out = sys.argv[1]
    specs = json.load(sys.stdin)
    from vmon.props.c09 import _make

    mazes = []
    for sp in specs:
        d = dict(cl=np.array(sp["cl"], dtype=bool), s=tuple(sp["s"]), e=tuple(sp["e"]), path=[tuple(p) for p in sp["path"]])
        m = _make(sp["kind"], d)
        if sp["hash_first"]:
            # the maze has been used as a set member / dict key before it travels
            _ = {m}
            _ = dict.fromkeys([m])
        mazes.append(m)
    with open(out, "wb") as f:
        pickle.dump(mazes, f)
    print("PICKLED", len(mazes))


if __name__ == "__main__":
    main()
