"""saver process for the real-crash sub-class of C11: request the dataset (generates and saves the cache file)

    python -m vmon.c11_saver <dir>  < spec.json
"""
from __future__ import annotations

import json
import sys
import warnings


def main():
    warnings.filterwarnings("ignore")
    spec = json.load(sys.stdin)
    from maze_dataset import MazeDataset
    from vmon.c04_child import make_cfg

    MazeDataset.from_config(make_cfg(spec), local_base_path=sys.argv[1], do_download=False)
    print("SAVED")


if __name__ == "__main__":
    main()
