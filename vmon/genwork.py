"""Generator workload shared by C01 and C12: the kwargs grid of DESIGN section 6/C01."""

from __future__ import annotations

import random

import numpy as np


def shapes(ctx, max_exh=6, n_random=40, max_random=20):
    out = [(r, c) for r in range(1, max_exh + 1) for c in range(1, max_exh + 1)]
    rng = ctx.sub_rng("shapes")
    for _ in range(n_random):
        out.append((int(rng.integers(1, max_random + 1)), int(rng.integers(1, max_random + 1))))
    out += [(1, max_random), (max_random, 1), (max_random, max_random)]
    return out


def start_coords(R, C, rng):
    cands = [None, (0, 0), (R - 1, C - 1), (0, C - 1), (R - 1, 0), (R // 2, C // 2)]
    return cands[int(rng.integers(len(cands)))]


def kwargs_for(gen: str, R: int, C: int, rng) -> dict:
    """one random point of the documented kwargs space (only values the docstrings accept)"""
    total = R * C
    kw: dict = {}
    if gen in ("gen_dfs", "gen_prim"):
        mode = int(rng.integers(6))
        if mode == 0:
            pass  # all defaults
        else:
            if rng.random() < 0.7:
                kw["accessible_cells"] = [None, 0, 1, 2, max(1, total // 2), total, total + 5, 0.0, 0.3, 0.5, 1.0,
                                          int(rng.integers(0, total + 2))][int(rng.integers(12))]
            if rng.random() < 0.5:
                kw["max_tree_depth"] = [None, 0, 1, 3, 2 * total, 0.5, 1.0, int(rng.integers(0, 2 * total + 1))][int(rng.integers(8))]
            if rng.random() < 0.4:
                kw["do_forks"] = bool(rng.random() < 0.4)
            if gen == "gen_dfs" and rng.random() < 0.3:
                kw["randomized_stack"] = True
        sc = start_coords(R, C, rng)
        if sc is not None and rng.random() < 0.5:
            kw["start_coord"] = sc
        kw = {k: v for k, v in kw.items() if not (k in ("accessible_cells", "max_tree_depth") and v is None and rng.random() < 0.5)}
    elif gen == "gen_percolation":
        kw["p"] = [0, 0.0, 0.1, 0.4, 0.5, 0.9, 1, 1.0, float(rng.random())][int(rng.integers(9))]
        if rng.random() < 0.2:
            del kw["p"]
        sc = start_coords(R, C, rng)
        if sc is not None and rng.random() < 0.5:
            kw["start_coord"] = sc
    elif gen == "gen_dfs_percolation":
        kw["p"] = [0, 0.0, 0.1, 0.4, 0.9, 1, 1.0, float(rng.random())][int(rng.integers(8))]
        if rng.random() < 0.2:
            del kw["p"]
        if rng.random() < 0.4:
            kw["accessible_cells"] = [0, 1, max(1, total // 2), total, total + 3][int(rng.integers(5))]
        if rng.random() < 0.3:
            kw["max_tree_depth"] = [0, 1, 3, 2 * total][int(rng.integers(4))]
        sc = start_coords(R, C, rng)
        if sc is not None and rng.random() < 0.5:
            kw["start_coord"] = sc
    return kw


def seed_library_rngs(seed: int, consume: int = 0):
    """enter the generator with a chosen state of the global RNGs it draws from"""
    random.seed(seed)
    np.random.seed(seed % (2**32))
    for _ in range(consume):
        random.random()
        np.random.rand()
