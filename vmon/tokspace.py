"""The modular-tokenizer configuration space, written as explicit loops over the documented validity rules
(independent of utils.all_instances), plus builders that turn a parameter dict into library objects.

params (flat dict):
  seq: "AOTP"|"AOP"; coord: "UT" | ("CTT", pre, intra, post)
  adj_cls: "AdjListCoord"|"AdjListCardinal"; adj_post, adj_shuffle: bool; ordinal: 0|1|2;
  subset: "all"|"conn"|"walls"; permuter: "sorted"|"random"|"both"
  tgt_post: bool (AOTP only)
  step_size: "Singles"|"Forks"; steps: tuple of distinct names from (Coord, Cardinal, Relative, Distance), not ("Distance",)
  p_pre, p_intra, p_post: bool
"""

from __future__ import annotations

import itertools

STEP_NAMES = ("Coord", "Cardinal", "Relative", "Distance")


def coord_space():
    yield "UT"
    for pre, intra, post in itertools.product((True, False), repeat=3):
        yield ("CTT", pre, intra, post)


def adj_space():
    for cls in ("AdjListCoord", "AdjListCardinal"):
        for post, shuffle in itertools.product((True, False), repeat=2):
            for ordinal in (0, 1, 2):
                for subset in ("all", "conn", "walls"):
                    for permuter in ("sorted", "random", "both"):
                        yield dict(adj_cls=cls, adj_post=post, adj_shuffle=shuffle, ordinal=ordinal, subset=subset, permuter=permuter)


def step_perm_space():
    for k in (1, 2, 3, 4):
        for perm in itertools.permutations(STEP_NAMES, k):
            if perm == ("Distance",):
                continue
            yield perm


def path_space():
    for ss in ("Singles", "Forks"):
        for steps in step_perm_space():
            for pre, intra, post in itertools.product((True, False), repeat=3):
                yield dict(step_size=ss, steps=steps, p_pre=pre, p_intra=intra, p_post=post)


def full_space():
    """all valid MazeTokenizerModular parameter dicts (5,878,656)"""
    adj = list(adj_space())
    path = list(path_space())
    for coord in coord_space():
        for a in adj:
            for p in path:
                yield dict(seq="AOP", coord=coord, **a, **p)
                for tp in (True, False):
                    yield dict(seq="AOTP", coord=coord, tgt_post=tp, **a, **p)


def space_sizes():
    return dict(coord=len(list(coord_space())), adj=len(list(adj_space())), step_perms=len(list(step_perm_space())), path=len(list(path_space())))


FACTORS = {
    "seq": ["AOTP", "AOP"],
    "coord": list(coord_space()),
    "adj_cls": ["AdjListCoord", "AdjListCardinal"],
    "adj_post": [True, False],
    "adj_shuffle": [True, False],
    "ordinal": [0, 1, 2],
    "subset": ["all", "conn", "walls"],
    "permuter": ["sorted", "random", "both"],
    "tgt_post": [True, False],
    "step_size": ["Singles", "Forks"],
    "steps": list(step_perm_space()),
    "p_pre": [True, False],
    "p_intra": [True, False],
    "p_post": [True, False],
}


def random_params(rng):
    return {k: v[int(rng.integers(len(v)))] for k, v in FACTORS.items()}


def covering_set(rng, n_random=200):
    """random configs + repair until every pair of factor values is covered; returns (configs, pairs_total)"""
    keys = list(FACTORS)
    all_pairs = set()
    for i, a in enumerate(keys):
        for b in keys[i + 1:]:
            for va in range(len(FACTORS[a])):
                for vb in range(len(FACTORS[b])):
                    all_pairs.add((a, va, b, vb))
    idx = {k: {repr(v): i for i, v in enumerate(vs)} for k, vs in FACTORS.items()}

    def pairs_of(cfg):
        out = set()
        for i, a in enumerate(keys):
            for b in keys[i + 1:]:
                out.add((a, idx[a][repr(cfg[a])], b, idx[b][repr(cfg[b])]))
        return out

    cfgs = [random_params(rng) for _ in range(n_random)]
    covered = set()
    for c in cfgs:
        covered |= pairs_of(c)
    missing = list(all_pairs - covered)
    while missing:
        a, va, b, vb = missing[int(rng.integers(len(missing)))]
        best, best_gain = None, -1
        for _ in range(6):
            c = random_params(rng)
            c[a] = FACTORS[a][va]; c[b] = FACTORS[b][vb]
            gain = len(pairs_of(c) - covered)
            if gain > best_gain:
                best, best_gain = c, gain
        cfgs.append(best)
        covered |= pairs_of(best)
        missing = list(all_pairs - covered)
    return cfgs, len(all_pairs)


def name_of(p) -> str:
    """the library's documented naming scheme, rebuilt from parameters (used by C15 to compare enumerations as multisets)"""
    def b(x):
        return "T" if x else "F"

    coord = "UT()" if p["coord"] == "UT" else f"CTT(pre={b(p['coord'][1])}, intra={b(p['coord'][2])}, post={b(p['coord'][3])})"
    subset = {"all": "AllLatticeEdges()", "conn": "ConnectionEdges(walls=F)", "walls": "ConnectionEdges(walls=T)"}[p["subset"]]
    perm = {"sorted": "SortedCoords()", "random": "RandomCoords()", "both": "BothCoords()"}[p["permuter"]]
    adj = (f"{p['adj_cls']}(pre=F, post={b(p['adj_post'])}, shuffle_d0={b(p['adj_shuffle'])}, "
           f"Ungrouped(connection_token_ordinal={p['ordinal']}), {subset}, {perm})")
    steps = "".join(f"{s}(), " for s in p["steps"])
    path = (f"StepSequence({p['step_size']}(), step_tokenizers=({steps}), pre={b(p['p_pre'])}, intra={b(p['p_intra'])}, post={b(p['p_post'])})")
    if p["seq"] == "AOTP":
        return f"MazeTokenizerModular-AOTP({coord}, {adj}, Unlabeled(post={b(p['tgt_post'])}), {path})"
    return f"MazeTokenizerModular-AOP({coord}, {adj}, {path})"


# ------------------------------------------------------------------ builders (import the library)
def build_coord(p):
    from maze_dataset.tokenization.maze_tokenizer import CoordTokenizers

    c = p["coord"]
    return CoordTokenizers.UT() if c == "UT" else CoordTokenizers.CTT(pre=c[1], intra=c[2], post=c[3])


def build_adj(p):
    from maze_dataset.tokenization.maze_tokenizer import AdjListTokenizers, EdgeGroupings, EdgePermuters, EdgeSubsets

    subset = {"all": EdgeSubsets.AllLatticeEdges(), "conn": EdgeSubsets.ConnectionEdges(walls=False), "walls": EdgeSubsets.ConnectionEdges(walls=True)}[p["subset"]]
    perm = {"sorted": EdgePermuters.SortedCoords(), "random": EdgePermuters.RandomCoords(), "both": EdgePermuters.BothCoords()}[p["permuter"]]
    return getattr(AdjListTokenizers, p["adj_cls"])(pre=False, post=p["adj_post"], shuffle_d0=p["adj_shuffle"],
                                                    edge_grouping=EdgeGroupings.Ungrouped(connection_token_ordinal=p["ordinal"]),
                                                    edge_subset=subset, edge_permuter=perm)


def build_path(p):
    from maze_dataset.tokenization.maze_tokenizer import PathTokenizers, StepSizes, StepTokenizers

    return PathTokenizers.StepSequence(step_size=getattr(StepSizes, p["step_size"])(),
                                       step_tokenizers=tuple(getattr(StepTokenizers, s)() for s in p["steps"]),
                                       pre=p["p_pre"], intra=p["p_intra"], post=p["p_post"])


def build_tokenizer(p):
    from maze_dataset.tokenization.maze_tokenizer import MazeTokenizerModular, PromptSequencers, TargetTokenizers

    if p["seq"] == "AOTP":
        seq = PromptSequencers.AOTP(coord_tokenizer=build_coord(p), adj_list_tokenizer=build_adj(p),
                                    target_tokenizer=TargetTokenizers.Unlabeled(post=p["tgt_post"]), path_tokenizer=build_path(p))
    else:
        seq = PromptSequencers.AOP(coord_tokenizer=build_coord(p), adj_list_tokenizer=build_adj(p), path_tokenizer=build_path(p))
    return MazeTokenizerModular(prompt_sequencer=seq)


def pair_coverage(cfgs):
    """(covered, total) factor-value pairs realised by the given configurations — measured, not assumed"""
    keys = list(FACTORS)
    idx = {k: {repr(v): i for i, v in enumerate(vs)} for k, vs in FACTORS.items()}
    total = 0
    for i, a in enumerate(keys):
        for b in keys[i + 1:]:
            total += len(FACTORS[a]) * len(FACTORS[b])
    covered = set()
    for cfg in cfgs:
        for i, a in enumerate(keys):
            for b in keys[i + 1:]:
                covered.add((a, idx[a][repr(cfg[a])], b, idx[b][repr(cfg[b])]))
    return len(covered), total
