"""fresh-process side of C15: the first full enumeration of the process is interrupted while it is running (a timer signal raises in
the main thread, as Ctrl-C or a time limit would), the program survives, and asks for all tokenizers again.  Prints one JSON object."""
import json
import signal
import sys
import time
import warnings


class _Interrupted(BaseException):
    pass


def main():
    warnings.filterwarnings("ignore")
    from maze_dataset.tokenization import MazeTokenizerModular
    from maze_dataset.tokenization import all_tokenizers as at
    from maze_dataset.utils import all_instances

    out = {}
    t0 = time.time()
    n0 = sum(1 for _ in all_instances(MazeTokenizerModular, at.MAZE_TOKENIZER_MODULAR_DEFAULT_VALIDATION_FUNCS))
    dur = time.time() - t0
    out["n_uncached"], out["seconds_uncached"] = n0, round(dur, 1)

    def handler(_s, _f):
        raise _Interrupted()

    old = signal.signal(signal.SIGALRM, handler)
    signal.setitimer(signal.ITIMER_REAL, max(1.0, 0.85 * dur))
    try:
        at.get_all_tokenizers()
        out["interrupted"] = False
    except _Interrupted:
        out["interrupted"] = True
    except BaseException as e:  # noqa: BLE001
        out["interrupted"] = f"other: {type(e).__name__}"
    finally:
        signal.setitimer(signal.ITIMER_REAL, 0)
        signal.signal(signal.SIGALRM, old)
    again = at.get_all_tokenizers()
    out["n_after_interrupt"] = len(again)
    out["n_distinct_sample"] = len({t.name for t in again[:2000]})
    json.dump(out, sys.stdout)


if __name__ == "__main__":
    main()
