"""pytest plugin: run the repository's own tests, unedited, with the ambient monitors attached.

    PYTHONPATH=/verif:/repo VMON_PLUGIN_OUT=<dir> pytest tests/unit -p vmon.pytest_plugin [-n 8]

Every (xdist) process writes <dir>/ambient-<pid>.json with what its monitors observed.
"""
from __future__ import annotations

import os

_CTX = None


def pytest_configure(config):
    global _CTX
    out = os.environ.get("VMON_PLUGIN_OUT")
    if not out:
        return
    from .core import Ctx
    from . import ambient

    _CTX = Ctx("AMBIENT", os.environ.get("VMON_PLUGIN_TIER", "thorough"), int(os.environ.get("VERIF_SEED", "0")), 0, 1)
    try:
        ambient.install(_CTX)
    except Exception as e:  # noqa: BLE001
        _CTX.note(f"ambient install failed: {type(e).__name__}: {e}")
        _CTX.tally("ambient:install-failed")


def pytest_unconfigure(config):
    out = os.environ.get("VMON_PLUGIN_OUT")
    if _CTX is None or not out:
        return
    os.makedirs(out, exist_ok=True)
    # ambient violations are stored as notes of other owners (prop == "AMBIENT" owns nothing)
    _CTX.dump(os.path.join(out, f"ambient-{os.getpid()}.json"))
